// C01 — every signature a session returns is valid under an independent verifier.
// Engine D: histories keygen(ids,n,t) [; refresh | ; derive] ; sign(S, m) for EVERY threshold,
// EVERY signer subset with |S|>t, a lattice of message-hash lengths, every signing protocol /
// variant, run on the real code; every completed party's result is judged by the reference
// verifier of the scheme under the group key fixed at key generation.
package main

import (
	"bytes"
	"fmt"
	"os"
	"sort"
	"strings"
	"time"

	"github.com/taurusgroup/multi-party-sig/internal/zzverif/drv"
	"github.com/taurusgroup/multi-party-sig/internal/zzverif/keymat"
	"github.com/taurusgroup/multi-party-sig/internal/zzverif/oracle"
	"github.com/taurusgroup/multi-party-sig/internal/zzverif/sess"
	"github.com/taurusgroup/multi-party-sig/internal/zzverif/vkit"
	"github.com/taurusgroup/multi-party-sig/pkg/ecdsa"
	"github.com/taurusgroup/multi-party-sig/pkg/party"
)

// unit = all message kinds x delivery orders of one (key material, signer subset, variant).
type unit struct {
	Proto    string   `json:"proto"` // frost | taproot | cmp | doerner
	IDSet    string   `json:"idset"`
	N        int      `json:"n"`
	T        int      `json:"t"`
	Material string   `json:"material"` // fresh | refreshed | derived
	Signers  []int    `json:"signers"`  // indices into the shareholder list
	Variant  string   `json:"variant"`  // sign | presign-online | presign-full
	Msgs     []string `json:"msgs,omitempty"`
	Orders   []bool   `json:"orders,omitempty"` // false = in order, true = per-batch reversed
}

// scase = one signing history; this is the replay object.
type scase struct {
	Unit unit   `json:"unit"`
	Msg  string `json:"msg"`
	Rev  bool   `json:"reversed"`
}

func (u unit) key() string {
	s := make([]string, len(u.Signers))
	for i, k := range u.Signers {
		s[i] = fmt.Sprint(k)
	}
	return fmt.Sprintf("%s|%s|n%d|t%d|%s|S%s|%s", u.Proto, u.IDSet, u.N, u.T, u.Material, strings.Join(s, "."), u.Variant)
}

func (c scase) key() string {
	o := "fifo"
	if c.Rev {
		o = "rev"
	}
	return c.Unit.key() + "|m" + c.Msg + "|" + o
}

func (u unit) protoName() string {
	if u.Proto == "cmp" {
		return "cmp-" + u.Variant
	}
	return u.Proto
}

// shape class of a signer set (goes into signatures instead of the concrete set).
func (u unit) shape() string {
	switch {
	case len(u.Signers) == 1:
		return "single-signer"
	case len(u.Signers) == u.T+1:
		return "t+1-signers"
	}
	return "more-than-t+1-signers"
}

func (u unit) group() string {
	return fmt.Sprintf("%s|%s|%d|%d|%s", u.Proto, u.IDSet, u.N, u.T, u.Material)
}

// ---- message-hash lattice ----------------------------------------------------------------------

var allMsgs = []string{"1", "20", "31", "32", "33", "64", "32x00", "32xFF"}

func message(name string) []byte {
	switch name {
	case "32x00":
		return make([]byte, 32)
	case "32xFF":
		return bytes.Repeat([]byte{0xFF}, 32)
	}
	var n int
	fmt.Sscanf(name, "%d", &n)
	b := make([]byte, n)
	drv.NewDRBG("c01-message|"+name, *vkit.Seed).Read(b)
	if b[0] == 0 {
		b[0] = 1 // keep the leading byte significant so that truncation / shifting mistakes change the value
	}
	return b
}

func lenClass(name string) string {
	n := len(message(name))
	switch {
	case n < 32:
		return "len<32"
	case n == 32:
		return "len=32"
	}
	return "len>32"
}

// singleSignerTimeout bounds the constructor call of a one-party session (every round runs
// inside the constructor; an honest one returns in well under a second).
const singleSignerTimeout = 15 * time.Second

// ---- enumeration ----------------------------------------------------------------------------------

func units() []unit {
	th := vkit.Thorough()
	var l []unit
	both := []bool{false, true}
	inorder := []bool{false}
	materials := []string{"fresh", "refreshed", "derived"} // cheap protocols: all three in both tiers
	cmpMaterials := []string{"fresh"}
	if th {
		cmpMaterials = materials
	}
	// FROST and FROST-Taproot
	maxN := 4
	if th {
		maxN = 5
	}
	for _, proto := range []string{"frost", "taproot"} {
		for n := 2; n <= maxN; n++ {
			idsets := []string{"short"}
			if th || n == 3 {
				idsets = append(idsets, "long")
			}
			if th && n == 3 {
				idsets = append(idsets, "mixedlen", "binary32")
			}
			for _, ids := range idsets {
				for t := 0; t < n; t++ {
					for _, mat := range materials {
						for _, S := range keymat.Subsets(n, t+1) {
							l = append(l, unit{proto, ids, n, t, mat, S, "sign", allMsgs, both})
						}
					}
				}
			}
		}
	}
	// Doerner: the only shape
	// ("mixedlen": the Receiver's identifier sorts AFTER the Sender's - roles and sorted order disagree)
	for _, ids := range []string{"short", "long", "mixedlen"} {
		for _, mat := range materials {
			l = append(l, unit{"doerner", ids, 2, 1, mat, []int{0, 1}, "sign", allMsgs, both})
		}
	}
	// CMP
	variants := []string{"sign", "presign-online", "presign-full"}
	cmpMsgs := []string{"32", "20"}
	if th {
		cmpMsgs = []string{"32", "20", "1", "31", "33", "64"}
	}
	for t := 0; t < 2; t++ {
		for _, mat := range cmpMaterials {
			for _, S := range keymat.Subsets(2, t+1) {
				for _, v := range variants {
					l = append(l, unit{"cmp", "short", 2, t, mat, S, v, cmpMsgs, inorder})
				}
			}
		}
	}
	if th {
		for t := 0; t < 3; t++ {
			for _, mat := range cmpMaterials {
				for _, S := range keymat.Subsets(3, t+1) {
					for _, v := range variants {
						l = append(l, unit{"cmp", "short", 3, t, mat, S, v, []string{"32", "20"}, inorder})
					}
				}
			}
		}
		// one non-trivial identifier shape for CMP: ids longer than a scalar, every (t,S) of n=2, fresh key
		for t := 0; t < 2; t++ {
			for _, S := range keymat.Subsets(2, t+1) {
				l = append(l, unit{"cmp", "long", 2, t, "fresh", S, "sign", []string{"32"}, inorder})
			}
		}
	}
	return l
}

func (u unit) cost() float64 {
	k := float64(len(u.Msgs) * len(u.Orders))
	s := float64(len(u.Signers))
	switch u.Proto {
	case "cmp":
		if len(u.Signers) == 1 {
			return k * singleSignerTimeout.Seconds()
		}
		c := 1.1 * s * (s - 1) // ≈2.2 s for two signers, ≈6.5 s for three
		if u.Variant == "presign-online" {
			c *= 1.2
		}
		return k * c
	case "doerner":
		return k * 0.15
	}
	return k * 0.012 * s
}

func groupCost(u unit) float64 {
	if u.Proto != "cmp" {
		return 0.1
	}
	c := 2.8 * float64(u.N)
	if u.Material == "refreshed" {
		c *= 2
	}
	return c
}

// ---- one signing history ------------------------------------------------------------------------------

type finding struct {
	Base, Detail string // Base: signature without the message-length class
}

func evaluate(c scase, verbose bool) []finding {
	u := c.Unit
	pn := u.protoName()
	mk := func(clause, extra, detail string) []finding {
		b := clause + "|" + pn + "|" + u.Material + "|" + u.shape()
		if extra != "" {
			b += "|" + extra
		}
		return []finding{{b, detail}}
	}
	ks, kf := keymat.Get(u.Proto, u.IDSet, u.N, u.T, u.Material, *vkit.Seed)
	if kf != nil {
		// key material could not be produced: a finding of its own class (C02/C08/C14 look at it in depth)
		return []finding{{"key-material-unavailable|" + u.Proto + "|" + u.Material + "|" + kf.Class, fmt.Sprintf("%s n=%d t=%d ids=%s: %s", u.Proto, u.N, u.T, u.IDSet, kf.Detail)}}
	}
	signers := make([]party.ID, len(u.Signers))
	for i, k := range u.Signers {
		signers[i] = ks.IDs[k]
	}
	msg := message(c.Msg)
	where := fmt.Sprintf("%s, %s key n=%d t=%d shareholders %s, signers %s (|S|=%d), message hash of %d bytes %x, %s order",
		pn, u.Material, u.N, u.T, keymat.Quote(ks.IDs), keymat.Quote(signers), len(signers), len(msg), msg, map[bool]string{false: "in", true: "per-batch reversed"}[c.Rev])
	if len(signers) == 1 {
		saved := drv.CallTimeout
		drv.CallTimeout = singleSignerTimeout
		defer func() { drv.CallTimeout = saved }()
	}
	run := func(variant string, pre map[party.ID]*ecdsa.PreSignature) (*sess.Outcome, *keymat.Fail) {
		// in the "reversed" variant every party also lists the signers with itself first (each party another
		// order of the same set); the in-order variant passes one common sorted list
		sess.OwnFirst = c.Rev
		sp := ks.SignSpec(variant, signers, msg, pre)
		o := keymat.Run(sp, *vkit.Seed, "c01|"+c.key()+"|"+variant, c.Rev)
		if verbose {
			fmt.Printf("  session %s: deliveries=%d results=%d errors=%v startErr=%v stuck=%v hung=%q panic=%q\n", sp.Name, o.Net.Steps, len(o.Results), o.Errors, o.StartErr, o.Stuck, o.Hung, o.Panic)
		}
		return o, keymat.Completion(o, signers)
	}
	incomplete := func(stage string, f *keymat.Fail) []finding {
		if strings.HasPrefix(f.Class, "panic:") {
			return []finding{{"panic|" + pn + "|" + f.Class[6:], where + ": " + stage + f.Detail}}
		}
		return mk("does-not-complete", f.Class, where+": "+stage+f.Detail)
	}
	if verbose {
		fmt.Println(where)
	}
	variant := u.Variant
	var pre map[party.ID]*ecdsa.PreSignature
	if u.Proto == "cmp" && variant == "presign-online" {
		o, f := run("presign", nil)
		if f != nil {
			return incomplete("offline presigning session: ", f)
		}
		pre = map[party.ID]*ecdsa.PreSignature{}
		for _, id := range signers {
			p, ok := o.Results[id].(*ecdsa.PreSignature)
			if !ok {
				return mk("bad-result-type", "", fmt.Sprintf("%s: presigning returned %T at %q", where, o.Results[id], id))
			}
			pre[id] = p
		}
	}
	o, f := run(variant, pre)
	if f != nil {
		return incomplete("", f)
	}
	var fs []finding
	var first []byte
	for i, id := range signers {
		r := o.Results[id]
		b, err := oracle.SigBytes(r)
		if err != nil {
			fs = append(fs, mk("bad-result-type", "", fmt.Sprintf("%s: result of %q: %v", where, id, err))...)
			continue
		}
		if i == 0 {
			first = b
		} else if !bytes.Equal(first, b) {
			fs = append(fs, mk("results-differ", "", fmt.Sprintf("%s: %q returns %x, %q returns %x", where, signers[0], first, id, b))...)
		}
		if err := oracle.CheckSignature(r, ks.Pub, msg); err != nil {
			fs = append(fs, mk("invalid-signature", "", fmt.Sprintf("%s: signature %x returned at %q does not verify under the group key %x: %v", where, b, id, ks.Pub.Compressed(), err))...)
		}
		if verbose {
			fmt.Printf("  %q: %T %x\n", id, r, b)
		}
	}
	// a retry: the same online session once more with the SAME in-memory presignature objects and digest (the first
	// attempt may have been abandoned half-way; producing a signature share must not use the presignature up)
	if u.Proto == "cmp" && variant == "presign-online" && len(fs) == 0 {
		o3, f3 := run(variant, pre)
		if f3 != nil {
			fs = append(fs, incomplete("second online session with the same presignature objects: ", f3)...)
		} else {
			for _, id := range signers {
				if err := oracle.CheckSignature(o3.Results[id], ks.Pub, msg); err != nil {
					b, _ := oracle.SigBytes(o3.Results[id])
					fs = append(fs, mk("invalid-signature", "second-use-of-the-presignature-objects", fmt.Sprintf("%s: second online session with the same presignature objects: signature %x returned at %q: %v", where, b, id, err))...)
				}
			}
		}
	}
	// the online phase once more with key material the presignature was NOT made for: every party holds the
	// BIP-32 child 5 of its configuration and the presignature of the parent key.  The session may fail
	// (and should); whatever it returns must be a valid signature under the key of the configuration it
	// was started with.
	if u.Proto == "cmp" && variant == "presign-online" && len(signers) > 1 {
		if d, err := ks.Derived(5); err == nil {
			sess.OwnFirst = c.Rev
			sp := d.SignSpec("presign-online", signers, msg, pre)
			o2 := keymat.Run(sp, *vkit.Seed, "c01|"+c.key()+"|online-on-child", c.Rev)
			if o2.Panic != "" {
				fs = append(fs, finding{"panic|" + pn + "|online-on-child", where + ": online phase with the parent's presignature on derived configurations: " + o2.Panic})
			}
			for _, id := range signers {
				r, ok := o2.Results[id]
				if !ok || r == nil {
					continue
				}
				if err := oracle.CheckSignature(r, d.Pub, msg); err != nil {
					b, _ := oracle.SigBytes(r)
					fs = append(fs, mk("invalid-signature", "presignature-of-another-key", fmt.Sprintf("%s: the online phase was started with the BIP-32 child 5 of every configuration and the presignature made for the parent key; %q returns %x, which does not verify under the child key %x: %v", where, id, b, d.Pub.Compressed(), err))...)
				}
			}
		}
	}
	return fs
}

func main() {
	res := vkit.Init("C01")
	drv.Install()
	sess.InstallPrimes()
	res.Rule = "one case = one history keygen(ids,n,t) [refresh | BIP-32 derive] ; sign(S,m) on the real protocol code: protocol/variant {FROST, FROST-Taproot, Doerner, CMP sign, CMP presign then online sign (two sessions), CMP presign-full} x (n,t) with every t in [0,n) x EVERY signer subset S of the shareholders with |S|>t (all sizes, including one-party sessions for t=0) x message-hash kinds {1,20,31,32,33,64 seeded bytes, 32x00, 32xFF} x key material {fresh, refreshed, BIP-32 derived} (CMP: fresh only in the quick tier) x delivery order {in order, per-batch reversed (not CMP)}; distinct = distinct tuple; every case is non-trivial: every signer must finish, all results must be byte-identical, and each result is verified by the reference verifier of its scheme (math/big ECDSA on the full nonce point / plain Schnorr group equation / BIP-340 on the message bytes as given) under the group key reported at key generation (derived material: under the reference BIP-32 child of that key)"
	res.Assumptions = []string{
		"delivery orders other than in-order and per-batch reversed are explored by C07",
		"plain FROST: the group equation z*G = R + c*Y is checked with reference arithmetic; the challenge framing c = H(R,Y,m) is computed with the library's hash as documented (there is no external standard for it)",
		"CMP key material uses pre-generated safe primes (prime hook); CMP runs in order only and on 2 hash lengths (32, 20) in the quick tier and for n=3",
		"a one-party session whose handler constructor does not return within 15 s is classified as never returning (an honest one-party session takes well under a second); the goroutine dump in the detail shows where it is blocked",
	}
	var rp scase
	if vkit.LoadReplay(&rp) {
		fs := evaluate(rp, true)
		for _, f := range fs {
			fmt.Println("VIOLATION", f.Base, "\n   ", f.Detail)
		}
		if len(fs) > 0 {
			os.Exit(1)
		}
		fmt.Println("no violation")
		return
	}
	all := units()
	costs := make([]float64, len(all))
	groups := make([]string, len(all))
	gcost := map[string]float64{}
	for i, u := range all {
		costs[i] = u.cost()
		groups[i] = u.group()
		gcost[groups[i]] = groupCost(u)
	}
	shard := keymat.Assign(costs, groups, gcost, vkit.ShardN())
	deadline := vkit.Deadline(100*time.Second, 24*time.Minute)
	var sessions, verified int64
	perProto := map[string]int64{}
	skipped := 0
	t00 := time.Now()
	for i, u := range all {
		if shard[i] != vkit.ShardI() || !vkit.Want(u.key()) {
			continue
		}
		if err := keymat.CheckIDs(keymat.IDSet(u.IDSet, u.N)); err != nil {
			res.Hard("identifier lattice: " + err.Error())
			continue
		}
		t0 := time.Now()
		// findings of the unit, grouped by signature base, to derive the message-length class
		type hit struct {
			c scase
			d string
		}
		hits := map[string][]hit{}
		ran := 0
		for _, m := range u.Msgs {
			for _, rev := range u.Orders {
				if !deadline.IsZero() && time.Now().After(deadline) {
					skipped++
					continue
				}
				c := scase{Unit: u, Msg: m, Rev: rev}
				c.Unit.Msgs, c.Unit.Orders = nil, nil
				fs := evaluate(c, false)
				res.Case(c.key())
				ran++
				sessions++
				perProto[u.protoName()]++
				if len(fs) == 0 {
					verified += int64(len(u.Signers))
				}
				for _, f := range fs {
					hits[f.Base] = append(hits[f.Base], hit{c, f.Detail})
				}
			}
		}
		if ks, _ := keymat.Get(u.Proto, u.IDSet, u.N, u.T, u.Material, *vkit.Seed); ks != nil && !ks.Unchanged() {
			// the same in-memory key material is used for all signing sessions of a unit, as an application
			// would: a session that modifies the material it was given breaks every later session with it
			res.Violate("key-material-modified-by-signing|"+u.protoName(), "a signing session of unit "+u.key()+" modified the key material object it was given ("+u.group()+"): later sessions with the same configuration object sign with a corrupted share",
				map[string]interface{}{"unit": u})
		}
		for base, hs := range hits {
			failing := map[string]bool{}
			classes := map[string]bool{}
			for _, h := range hs {
				failing[h.c.Msg] = true
				classes[lenClass(h.c.Msg)] = true
			}
			lc := "any-length"
			if len(failing) < len(u.Msgs) {
				var cl []string
				for k := range classes {
					cl = append(cl, k)
				}
				sort.Strings(cl)
				lc = strings.Join(cl, "+")
			}
			for _, h := range hs {
				res.Violate(base+"|"+lc, h.d, h.c)
			}
		}
		if len(u.Signers) >= 2 && u.Signers[0] != 0 && len(u.Signers) < u.N && (u.N == 3 || u.Proto == "cmp") {
			res.Sample(map[string]interface{}{"unit": u.key(), "cases": ran, "findings": len(hits)})
		}
		fmt.Fprintf(os.Stderr, "[%6.1fs] %-60s cases=%d findings=%d %.2fs\n", time.Since(t00).Seconds(), u.key(), ran, len(hits), time.Since(t0).Seconds())
	}
	if skipped > 0 {
		res.Note(fmt.Sprintf("internal deadline reached: %d cases of this shard not run", skipped))
		res.Exhaustive = false
	}
	res.Extra["signing_histories"] = sessions
	res.Extra["party_results_verified_by_reference"] = verified
	for p, k := range perProto {
		res.Extra["histories_"+p] = k
	}
	res.Finish()
}
