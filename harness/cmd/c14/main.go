// c14 — chain keys agree and BIP-32 derivation matches the standard (engine D).
//
// One case = (protocol family, n, t, history): a real key generation followed by a sequence
// over {derive(i), refresh}, i in {0, 1, 2^31-1, two seeded indices}; ALL sequences up to the
// depth bound (the empty history = the key generation itself included), breadth-first.  Next
// to the library's material the case carries a REFERENCE state (public key, chain code) that
// evolves by ref.CKDpub only (HMAC-SHA512 + math/big secp256k1).  At its last node the case checks:
//
//	chain-key-missing / chain-key-differs   all parties hold the same chain key and it is exactly 32 bytes long
//	bip32-mismatch|<proto>|child-key        every party's child public key is the reference child of (parent key, parent chain key, i)
//	bip32-mismatch|<proto>|chain-code       every party's child chain key is the reference chain code
//	derived-sharing / derived-shares-wrong-key   the derived material satisfies the consistency conditions and every (t+1)-subset
//	                                        of derived secret shares (Doerner: the sum) is the secret key of the reference child key
//	sign-with-derived-fails                 a signing session with the derived material completes, reference-valid under the CHILD key
//	hardened-index-accepted / panic|derive-hardened   indices 2^31 and 2^32-1 are refused by an error
//
// Taproot convention (the one frost/keygen/config.go documents): the parent point is lift_x of the
// stored 32-byte key (even Y, serialised with prefix 02); the reference child point Q = IL*G + parent;
// compared are the child's stored 32 bytes with X(Q), and the shares with the even-Y representative of Q.
package main

import (
	"bytes"
	"encoding/binary"
	"fmt"
	"math/big"
	"os"
	"strconv"
	"strings"
	"time"

	"github.com/taurusgroup/multi-party-sig/internal/zzverif/drv"
	"github.com/taurusgroup/multi-party-sig/internal/zzverif/hist"
	"github.com/taurusgroup/multi-party-sig/internal/zzverif/ref"
	"github.com/taurusgroup/multi-party-sig/internal/zzverif/sess"
	"github.com/taurusgroup/multi-party-sig/internal/zzverif/vkit"
	"github.com/taurusgroup/multi-party-sig/pkg/party"
)

type kase struct {
	Scenario hist.Scenario `json:"scenario"`
	History  []string      `json:"history"`
}

func (k kase) key() string { return k.Scenario.String() + "|" + strings.Join(k.History, ",") }

type runner struct {
	k        kase
	verbose  bool
	vios     [][2]string
	cur      *hist.Mat
	refPub   ref.Pt
	refChain []byte
	stats    map[string]int64
	obs      map[string]string
}

func (r *runner) say(format string, a ...interface{}) {
	if r.verbose {
		fmt.Printf(format+"\n", a...)
	}
}

func (r *runner) violate(sig, detail string) {
	r.vios = append(r.vios, [2]string{sig, fmt.Sprintf("%s history=[%s]: %s", r.k.Scenario, strings.Join(r.k.History, ","), detail)})
	r.say("  VIOLATION %s: %s", sig, detail)
}

func (r *runner) run(s *sess.Spec, step int, what string) *sess.Outcome {
	r.stats["sessions"]++
	label := fmt.Sprintf("c14|%s|%s|%d|%s", r.k.Scenario, strings.Join(r.k.History[:step], ","), step, what)
	t0 := time.Now()
	o := sess.Run(s, *vkit.Seed, label)
	r.say("    session %-12s %6.2fs  %s", what, time.Since(t0).Seconds(), hist.Describe(o))
	return o
}

func proto(r *runner) string { return r.k.Scenario.Proto }

func evenY(p ref.Pt) ref.Pt {
	if !p.Inf && p.Y.Bit(0) == 1 {
		return p.Neg()
	}
	return p
}

func signers(sc hist.Scenario, ids []party.ID) []party.ID {
	if sc.Proto == hist.Doerner {
		return ids
	}
	return ids[len(ids)-(sc.T+1):]
}

// chainOracle: all parties hold the same chain key, exactly 32 bytes long.  Returns the common value.
func (r *runner) chainOracle(f *hist.Facts, kind string, report bool) (common []byte, agree bool) {
	first := f.Chain[f.IDs[0]]
	suffix := ""
	if kind != "keygen" {
		suffix = "|" + kind
	}
	agree = true
	for _, id := range f.IDs {
		if !bytes.Equal(f.Chain[id], first) {
			agree = false
			if report {
				r.violate("chain-key-differs|"+proto(r)+suffix, fmt.Sprintf("%s holds chain key %x, %s holds %x", f.IDs[0], first, id, f.Chain[id]))
			}
		}
	}
	if report {
		for _, id := range f.IDs {
			if l := len(f.Chain[id]); l == 0 {
				r.violate("chain-key-missing|"+proto(r)+suffix, fmt.Sprintf("the chain key of %s is empty (%s)", id, kind))
				break
			} else if l != 32 {
				r.violate("chain-key-length|"+proto(r)+suffix, fmt.Sprintf("the chain key of %s is %d bytes long (%s)", id, l, kind))
				break
			}
		}
	}
	return first, agree
}

// signOracle: a signing session with the current material completes and verifies under the reference key.
func (r *runner) signOracle(step int, sig string) {
	S := signers(r.k.Scenario, r.cur.IDs)
	msg := hist.Msg("c14 " + strings.Join(r.k.History, ","))
	m, err := r.cur.Fresh() // sign on restored copies: the case's own objects stay untouched
	if err != nil {
		m = r.cur
	}
	o := r.run(m.SignSpec(S, msg, nil), step, "sign")
	r.stats["sign_sessions"]++
	if o.Panic != "" {
		r.violate("panic|sign|"+o.Panic[strings.LastIndex(o.Panic, " in ")+4:], o.Panic)
		return
	}
	if err := hist.CheckSigned(o, S, r.refPub, msg); err != nil {
		r.violate(sig, fmt.Sprintf("signers %v under the reference key %s: %v", S, hist.Hex(r.refPub), err))
	}
}

// hardenedOracle: hardened indices are refused with an error.
func (r *runner) hardenedOracle() {
	for _, i := range []uint32{1 << 31, 1<<32 - 1} {
		d := r.cur.Derive(i)
		r.stats["hardened_probes"]++
		switch {
		case len(d.Panics) > 0:
			r.violate("panic|derive-hardened|"+d.Frame, fmt.Sprintf("index %d: %s", i, d.Describe()))
		case !d.Refused():
			r.violate("hardened-index-accepted|"+proto(r), fmt.Sprintf("index %d (hardened) yields a child", i))
		}
	}
}

func (r *runner) wantSign() bool {
	sc := r.k.Scenario
	if sc.Proto != hist.CMP || vkit.Thorough() || r.verbose {
		return true
	}
	h := strings.Join(r.k.History, ",")
	al := alphabet(sc)
	return h == "" || h == al[1] || h == al[2]+","+al[3] || h == "refresh,"+al[0]
}

// execute runs the history; returns the outcome class.
func (r *runner) execute() string {
	sc := r.k.Scenario
	m, err := hist.Keygen(sc)
	if err != nil {
		r.violate("keygen-fails|"+sc.Proto, err.Error())
		return "violation"
	}
	f, err := m.Facts()
	if err != nil {
		r.violate("keygen-fails|"+sc.Proto, err.Error())
		return "violation"
	}
	r.cur = m
	r.refPub = f.Pub[f.IDs[0]]
	root := len(r.k.History) == 0
	var agree bool
	if r.refChain, agree = r.chainOracle(f, "keygen", root); !agree && !root {
		return "pruned:prefix-deviates"
	}
	if root {
		for _, e := range m.Consistency() {
			r.violate("sharing|"+sc.Proto+"|"+hist.Clause(e), e.Error())
		}
		r.hardenedOracle()
		if r.wantSign() && r.clean(0) {
			r.signOracle(0, "sign-fails|"+sc.Proto+"|keygen")
		}
	}
	for step, op := range r.k.History {
		last := step == len(r.k.History)-1
		r.say("step %d: %s%s", step, op, map[bool]string{true: "  (oracle evaluated)", false: ""}[last])
		before := len(r.vios)
		var cont bool
		if op == "refresh" {
			cont = r.opRefresh(step, last)
		} else {
			i, _ := strconv.ParseUint(op[len("derive:"):], 10, 32)
			cont = r.opDerive(step, last, uint32(i))
		}
		if last {
			break
		}
		if !cont || len(r.vios) > before {
			// the node deviates from the reference: the shorter case ending here reports it; nothing below is judged
			r.vios = r.vios[:before]
			return "pruned:prefix-deviates"
		}
	}
	if len(r.vios) > 0 {
		return "violation"
	}
	return "ok"
}

// opDerive: every party derives child i; oracle against the reference child of (refPub, refChain, i).
// The comparisons that decide whether the history may continue are made at every node; they are
// only REPORTED by the case that ends here (the caller drops them otherwise).
func (r *runner) opDerive(step int, last bool, i uint32) bool {
	sc := r.k.Scenario
	vb := len(r.vios)
	parentBefore, _ := r.cur.Facts()
	d := r.cur.Derive(i)
	wantPub, wantChain, refErr := ref.CKDpub(r.refPub, r.refChain, i)
	r.stats["derivations"]++
	if len(d.Panics) > 0 {
		r.violate("panic|derive|"+d.Frame, d.Describe())
		return false
	}
	if d.Refused() {
		if refErr == nil {
			r.violate("derive-fails|"+sc.Proto, fmt.Sprintf("index %d with a %d-byte chain key: the reference child exists but: %s", i, len(r.refChain), d.Describe()))
		}
		return false
	}
	if refErr != nil {
		r.violate("derive-accepts-invalid-child|"+sc.Proto, fmt.Sprintf("index %d: reference says %v, the library returned a child", i, refErr))
		return false
	}
	nf, err := d.Mat.Facts()
	if err != nil {
		r.violate("derived-sharing|"+sc.Proto+"|readable", err.Error())
		return false
	}
	want := wantPub
	if sc.Proto == hist.Taproot {
		want = evenY(wantPub)
	}
	keyOK := true
	for _, id := range nf.IDs {
		if !nf.Pub[id].Equal(want) {
			keyOK = false
			r.violate("bip32-mismatch|"+sc.Proto+"|child-key", fmt.Sprintf("index %d: child public key of %s is %s, reference CKDpub(%s, chain %x) gives %s", i, id, hist.Hex(nf.Pub[id]), hist.Hex(r.refPub), r.refChain, hist.Hex(want)))
		}
		if sc.Proto == hist.Taproot && !bytes.Equal(nf.XOnly[id], wantPub.XBytes()) {
			r.violate("bip32-mismatch|"+sc.Proto+"|child-key", fmt.Sprintf("index %d: stored x-only child key of %s is %x, X of the reference child is %x", i, id, nf.XOnly[id], wantPub.XBytes()))
		}
		if !bytes.Equal(nf.Chain[id], wantChain) {
			r.violate("bip32-mismatch|"+sc.Proto+"|chain-code", fmt.Sprintf("index %d: child chain key of %s is %x (%d bytes), reference chain code is %x", i, id, nf.Chain[id], len(nf.Chain[id]), wantChain))
		}
	}
	// the expensive clauses are evaluated by the case that ends at this node only
	if last {
		before := len(r.vios)
		for _, e := range d.Mat.Consistency() {
			r.violate("derived-sharing|"+sc.Proto+"|"+hist.Clause(e), fmt.Sprintf("index %d: %v", i, e))
		}
		size := sc.T + 1
		if sc.Proto == hist.Doerner {
			size = 2
		}
		for _, sub := range hist.Subsets(d.Mat.IDs, size) {
			sids := make([]string, len(sub))
			shares := make([]*big.Int, len(sub))
			for j, id := range sub {
				sids[j] = string(id)
				shares[j] = nf.Secret[string(id)]
			}
			r.stats["reconstructions"]++
			// implied by (consistent and child key == reference); reported when those two did not already fire
			if !ref.MulG(hist.Combine(sc.Proto, sids, shares)).Equal(want) && len(r.vios) == before && keyOK {
				r.violate("derived-shares-wrong-key|"+sc.Proto, fmt.Sprintf("index %d: derived secret shares of %v do not reconstruct the secret key of the reference child %s", i, sids, hist.Hex(want)))
			}
		}
	}
	if last {
		// derivation must leave the parent material untouched, and a SECOND child derived from the same
		// parent objects must be as good as the first (an application derives many children from one key)
		if parentAfter, err := r.cur.Facts(); err == nil && parentBefore != nil {
			if df := hist.Diff(parentBefore, parentAfter); len(df) > 0 {
				r.violate("derive-modifies-parent|"+sc.Proto, fmt.Sprintf("deriving child %d changed the parent material: %v", i, df))
			}
		}
		j := (i + 1) & 0x7fffffff
		if wp2, wc2, e2 := ref.CKDpub(r.refPub, r.refChain, j); e2 == nil {
			d2 := r.cur.Derive(j)
			r.stats["derivations"]++
			if len(d2.Panics) > 0 || d2.Refused() {
				r.violate("sibling-derivation|"+sc.Proto+"|fails", fmt.Sprintf("after deriving child %d, deriving child %d from the same parent: %s", i, j, d2.Describe()))
			} else if f2, err := d2.Mat.Facts(); err == nil {
				w2 := wp2
				if sc.Proto == hist.Taproot {
					w2 = evenY(wp2)
				}
				for _, id := range f2.IDs {
					if !f2.Pub[id].Equal(w2) || !bytes.Equal(f2.Chain[id], wc2) {
						r.violate("sibling-derivation|"+sc.Proto+"|bip32-mismatch", fmt.Sprintf("after deriving child %d, child %d derived from the same parent objects does not match the reference at %s", i, j, id))
					}
				}
				for _, e := range d2.Mat.Consistency() {
					r.violate("sibling-derivation|"+sc.Proto+"|"+hist.Clause(e), fmt.Sprintf("after deriving child %d, child %d derived from the same parent objects: %v", i, j, e))
				}
			}
		}
	}
	r.cur = d.Mat
	r.refPub, r.refChain = want, wantChain
	if last {
		r.hardenedOracle()
		if r.wantSign() && r.clean(vb) {
			r.signOracle(step+1, "sign-with-derived-fails|"+sc.Proto)
		}
	}
	return true
}

// clean: no clause about the material itself failed at this node (panics of the hardened probe do not count):
// a signing session on material already shown to be wrong would only repeat that finding
func (r *runner) clean(from int) bool {
	for _, v := range r.vios[from:] {
		if !strings.HasPrefix(v[0], "panic|derive-hardened") && !strings.HasPrefix(v[0], "hardened-index") && !strings.HasPrefix(v[0], "chain-key-missing") {
			return false
		}
	}
	return true
}

func (r *runner) opRefresh(step int, last bool) bool {
	sc := r.k.Scenario
	vb := len(r.vios)
	pre, _ := r.cur.Facts()
	o := r.run(r.cur.RefreshSpec(), step, "refresh")
	if o.Panic != "" {
		r.violate("panic|refresh|"+o.Panic[strings.LastIndex(o.Panic, " in ")+4:], o.Panic)
		return false
	}
	if !o.AllDone(r.cur.IDs) {
		r.violate("refresh-fails|"+sc.Proto, hist.Describe(o))
		return false
	}
	nw, err := r.cur.FromResults(o.Results)
	if err != nil {
		r.violate("refresh-fails|"+sc.Proto, err.Error())
		return false
	}
	nf, err := nw.Facts()
	if err != nil {
		r.violate("sharing-after-refresh|"+sc.Proto+"|readable", err.Error())
		return false
	}
	for _, id := range nf.IDs {
		if !nf.Pub[id].Equal(r.refPub) {
			r.violate("refresh-changes-key|"+sc.Proto, fmt.Sprintf("%s reports %s after the refresh, the reference key is %s", id, hist.Hex(nf.Pub[id]), hist.Hex(r.refPub)))
		}
	}
	if last {
		for _, e := range nw.Consistency() {
			r.violate("sharing-after-refresh|"+sc.Proto+"|"+hist.Clause(e), e.Error())
		}
	}
	// a missing chain key is reported by the case that ends here; it is no deviation from the reference
	// (which continues from what the parties hold), so longer histories are still judged
	chain, agree := r.chainOracle(nf, "after-refresh", last)
	if !agree && !last {
		return false
	}
	if pre != nil {
		was := pre.Chain[pre.IDs[0]]
		switch {
		case len(chain) == 0:
			r.obs["chain key across refresh|"+sc.Proto] = "dropped"
		case bytes.Equal(was, chain):
			r.obs["chain key across refresh|"+sc.Proto] = "preserved"
		default:
			r.obs["chain key across refresh|"+sc.Proto] = "replaced by a new one (children derived before and after the refresh differ)"
		}
	}
	// what the refreshed parties now hold is the chain code further derivations start from
	r.refChain = chain
	r.cur = nw
	if last {
		r.hardenedOracle()
		if r.wantSign() && r.clean(vb) {
			r.signOracle(step+1, "sign-fails|"+sc.Proto+"|after-refresh")
		}
	}
	return true
}

// ---- enumeration ----------------------------------------------------------------------------------

func scenarios() []hist.Scenario {
	var l []hist.Scenario
	for _, p := range []string{hist.Frost, hist.Taproot} {
		for _, nt := range [][2]int{{2, 1}, {3, 1}, {3, 2}} {
			l = append(l, hist.Scenario{Proto: p, N: nt[0], T: nt[1]})
		}
	}
	l = append(l, hist.Scenario{Proto: hist.Doerner, N: 2, T: 1}, hist.Scenario{Proto: hist.CMP, N: 2, T: 1})
	return l
}

var alphas = map[int][]string{}

// alphabet: boundary indices plus seeded ones (2; 4 for the cheap protocols in the thorough tier), then refresh.
func alphabet(sc hist.Scenario) []string {
	seeded := 2
	if vkit.Thorough() && sc.Proto != hist.CMP {
		seeded = 4
	}
	alpha := alphas[seeded]
	if alpha == nil {
		g := drv.NewDRBG("c14-indices", *vkit.Seed)
		idx := []uint32{0, 1, 1<<31 - 1}
		for len(idx) < 3+seeded {
			var b [4]byte
			g.Read(b[:])
			v := binary.BigEndian.Uint32(b[:]) & (1<<31 - 1)
			dup := false
			for _, x := range idx {
				dup = dup || x == v
			}
			if !dup {
				idx = append(idx, v)
			}
		}
		for _, i := range idx {
			alpha = append(alpha, fmt.Sprintf("derive:%d", i))
		}
		alpha = append(alpha, "refresh")
		alphas[seeded] = alpha
	}
	return alpha
}

func depth(sc hist.Scenario) int {
	if sc.Proto == hist.CMP && !vkit.Thorough() {
		return 2
	}
	return 3
}

func histories(al []string, d int) [][]string {
	out := [][]string{{}}
	level := [][]string{{}}
	for l := 1; l <= d; l++ {
		var next [][]string
		for _, h := range level {
			for _, a := range al {
				next = append(next, append(append([]string{}, h...), a))
			}
		}
		out = append(out, next...)
		level = next
	}
	return out
}

func newRunner(k kase, verbose bool) *runner {
	return &runner{k: k, verbose: verbose, stats: map[string]int64{}, obs: map[string]string{}}
}

func main() {
	res := vkit.Init("C14")
	drv.Install()
	drv.CallTimeout = 120 * time.Second
	res.Rule = "one case = (protocol family, n, t, history over {derive(i) for i in {0,1,2^31-1, 2 seeded indices}, refresh}) after a real key generation; ALL histories up to depth 3 (CMP quick: 2) including the empty one, breadth-first; the case runs its history from scratch and evaluates, at its last node, the library's state against a reference state (public key, chain code) that evolves by the reference CKDpub only: chain keys equal and 32 bytes, child key and chain code on every party, consistency conditions, every (t+1)-subset of derived shares reconstructs the reference child's secret, hardened indices refused, and a signing session verified under the reference child key; a history whose proper prefix already deviates from the reference is not judged (the shorter case reports it); distinct = distinct (scenario, history) with a conforming prefix"
	res.Assumptions = []string{
		"what a refresh does to the chain key is not prescribed by the property: the reference continues from the value the refreshed parties hold (recorded under chain_key_across_refresh); it must still be common to all parties and 32 bytes long",
		"indices whose HMAC output is >= n or yields the point at infinity (probability 2^-127) are not in the enumerated alphabet",
		"CMP quick: signing sessions at four selected nodes only; thorough: at every node",
	}

	var rp kase
	if vkit.LoadReplay(&rp) {
		r := newRunner(rp, true)
		out := r.execute()
		fmt.Println("outcome:", out)
		for _, v := range r.vios {
			fmt.Println("VIOLATION", v[0], "\n  ", v[1])
		}
		if len(r.vios) > 0 {
			os.Exit(1)
		}
		return
	}

	deadline := vkit.Deadline(110*time.Second, 23*time.Minute)
	outcomes := map[string]int64{}
	perScenario := map[string]int64{}
	stats := map[string]int64{}
	n := 0
	cut := false
	for _, sc := range scenarios() {
		if !vkit.Want(sc.String()) {
			continue
		}
		for _, h := range histories(alphabet(sc), depth(sc)) {
			n++
			if !vkit.Mine(n) {
				continue
			}
			if !deadline.IsZero() && time.Now().After(deadline) {
				cut = true
				continue
			}
			k := kase{Scenario: sc, History: h}
			r := newRunner(k, false)
			var out string
			if p, msg, frame := vkit.Try(func() { out = r.execute() }); p {
				res.Violate("panic|history|"+frame, fmt.Sprintf("%s: %s", k.key(), msg), k)
				out = "violation"
			}
			outcomes[out]++
			if strings.HasPrefix(out, "pruned") {
				res.Case("")
			} else {
				res.Case(k.key())
				perScenario[sc.String()]++
			}
			for _, v := range r.vios {
				res.Violate(v[0], v[1], k)
			}
			for a, b := range r.stats {
				stats[a] += b
			}
			for a, b := range r.obs {
				res.Extra[a] = b
			}
			if n%97 == 0 {
				res.Sample(map[string]interface{}{"scenario": sc.String(), "history": h, "outcome": out, "reference_child_key": hist.Hex(r.refPub), "reference_chain_code": fmt.Sprintf("%x", r.refChain)})
			}
		}
	}
	if cut {
		res.Exhaustive = false
		res.Note("internal deadline reached: the remaining histories of this shard were not run")
	}
	res.Extra["outcome_classes"] = outcomes
	res.Extra["cases_per_scenario"] = perScenario
	res.Extra["oracle_work"] = stats
	res.Extra["index_alphabet"] = strings.Join(alphabet(hist.Scenario{Proto: hist.Frost}), " ")
	res.Finish()
}
