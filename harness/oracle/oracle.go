// Package oracle judges protocol results against the independent reference models of
// package ref: signatures (ECDSA, plain Schnorr, BIP-340) and key material (consistency of
// the public view, own share matches the table, every t+1 subset reconstructs the key, no
// t subset does).
package oracle

import (
	"bytes"
	"fmt"
	"io"
	"math/big"
	"reflect"
	"sort"
	"unsafe"

	"github.com/taurusgroup/multi-party-sig/internal/zzverif/ref"
	"github.com/taurusgroup/multi-party-sig/pkg/ecdsa"
	"github.com/taurusgroup/multi-party-sig/pkg/hash"
	"github.com/taurusgroup/multi-party-sig/pkg/math/curve"
	"github.com/taurusgroup/multi-party-sig/pkg/math/sample"
	"github.com/taurusgroup/multi-party-sig/pkg/party"
	"github.com/taurusgroup/multi-party-sig/pkg/taproot"
	"github.com/taurusgroup/multi-party-sig/protocols/cmp"
	"github.com/taurusgroup/multi-party-sig/protocols/doerner"
	"github.com/taurusgroup/multi-party-sig/protocols/frost"
)

// Pt converts a library point.
func Pt(p curve.Point) (ref.Pt, error) {
	if p == nil {
		return ref.Pt{}, fmt.Errorf("nil point")
	}
	return ref.FromLibPoint(p, p.IsIdentity())
}

func Sc(s curve.Scalar) *big.Int { return ref.FromLibScalar(s) }

// SigBytes is a canonical encoding of a signature result (for agreement between parties).
func SigBytes(r interface{}) ([]byte, error) {
	switch s := r.(type) {
	case *ecdsa.Signature:
		if s == nil || s.R == nil || s.S == nil {
			return nil, fmt.Errorf("signature with nil fields")
		}
		rb, err := s.R.MarshalBinary()
		if err != nil {
			return nil, err
		}
		sb, err := s.S.MarshalBinary()
		return append(rb, sb...), err
	case frost.Signature:
		z := frostZ(s)
		if s.R == nil || z == nil {
			return nil, fmt.Errorf("signature with nil fields")
		}
		rb, err := s.R.MarshalBinary()
		if err != nil {
			return nil, err
		}
		zb, err := z.MarshalBinary()
		return append(rb, zb...), err
	case taproot.Signature:
		return append([]byte{}, s...), nil
	}
	return nil, fmt.Errorf("unexpected signature result type %T", r)
}

func frostZ(s frost.Signature) curve.Scalar {
	v := reflect.ValueOf(&s).Elem().FieldByName("z")
	if !v.IsValid() {
		return nil
	}
	v = reflect.NewAt(v.Type(), unsafe.Pointer(v.UnsafeAddr())).Elem()
	z, _ := v.Interface().(curve.Scalar)
	return z
}

// CheckSignature verifies a signing result for message hash msg under the public key pub
// with the reference verifier of the scheme the result type belongs to.
func CheckSignature(r interface{}, pub ref.Pt, msg []byte) error {
	switch s := r.(type) {
	case *ecdsa.Signature:
		if s == nil || s.R == nil || s.S == nil {
			return fmt.Errorf("signature with nil fields")
		}
		R, err := Pt(s.R)
		if err != nil {
			return fmt.Errorf("bad R: %v", err)
		}
		if R.Inf {
			return fmt.Errorf("R is the identity")
		}
		rr := new(big.Int).Mod(R.X, ref.N)
		if !ref.ECDSAVerify(pub, msg, rr, Sc(s.S)) {
			return fmt.Errorf("reference ECDSA verification fails")
		}
		// the signature object carries the whole nonce point (its Ethereum form derives the recovery id from it):
		// it must be the point the equation determines, not only a point with the same x coordinate
		if np := ref.ECDSANoncePoint(pub, msg, rr, Sc(s.S)); !np.Equal(R) {
			return fmt.Errorf("(r, s) verifies, but the nonce point R of the signature object is not s^-1(m*G + r*X): it is its negation, so the Ethereum form of this signature recovers another key")
		}
		return nil
	case taproot.Signature:
		if pub.Inf {
			return fmt.Errorf("identity public key")
		}
		if !ref.BIP340Verify(pub.XBytes(), msg, s) {
			return fmt.Errorf("reference BIP-340 verification fails")
		}
		return nil
	case frost.Signature:
		// plain Schnorr: z·G == R + c·Y with the library's documented challenge c = H(R, Y, m).
		// The group equation is checked with reference arithmetic; the challenge framing is the library's own hash.
		z := frostZ(s)
		if s.R == nil || z == nil {
			return fmt.Errorf("signature with nil fields")
		}
		R, err := Pt(s.R)
		if err != nil {
			return fmt.Errorf("bad R: %v", err)
		}
		Y, err := libPoint(pub)
		if err != nil {
			return err
		}
		c, err := FrostChallenge(s.R, Y, msg)
		if err != nil {
			return err
		}
		left := ref.MulG(Sc(z))
		right := ref.Add(R, ref.Mul(c, pub))
		if !left.Equal(right) {
			return fmt.Errorf("reference Schnorr equation z·G = R + c·Y fails")
		}
		return nil
	}
	return fmt.Errorf("unexpected signature result type %T", r)
}

func libPoint(p ref.Pt) (curve.Point, error) {
	if p.Inf {
		return nil, fmt.Errorf("identity public key")
	}
	out := curve.Secp256k1{}.NewPoint()
	if err := out.UnmarshalBinary(p.Compressed()); err != nil {
		return nil, err
	}
	return out, nil
}

type mhW struct{ m []byte }

func (m mhW) WriteTo(w io.Writer) (int64, error) {
	if m.m == nil {
		return 0, fmt.Errorf("nil message")
	}
	n, err := w.Write(m.m)
	return int64(n), err
}
func (mhW) Domain() string { return "messageHash" }

// FrostChallenge computes c = H(R, Y, m) exactly as documented in docs/FROST.md / sign/types.go.
func FrostChallenge(R, Y curve.Point, m []byte) (*big.Int, error) {
	h := hash.New()
	if err := h.WriteAny(R, Y, mhW{m}); err != nil {
		return nil, err
	}
	c := sample.Scalar(h.Digest(), curve.Secp256k1{})
	return Sc(c), nil
}

// ---- key material -------------------------------------------------------------------------------

// View is the protocol-independent content of one party's key material.
type View struct {
	ID        party.ID
	Threshold int
	Secret    *big.Int          // own secret share
	Public    ref.Pt            // group public key as this party reports it
	Shares    map[string]ref.Pt // table of public shares
	ChainKey  []byte
	Aux       string // digest of the auxiliary public data (Paillier, Pedersen, ElGamal), "" if none
	Taproot   bool
}

func CMPView(c *cmp.Config) (*View, error) {
	if c == nil {
		return nil, fmt.Errorf("nil config")
	}
	v := &View{ID: c.ID, Threshold: c.Threshold, Shares: map[string]ref.Pt{}, ChainKey: c.ChainKey}
	if c.ECDSA == nil {
		return nil, fmt.Errorf("nil secret share")
	}
	v.Secret = Sc(c.ECDSA)
	var err error
	if v.Public, err = Pt(c.PublicPoint()); err != nil {
		return nil, fmt.Errorf("public point: %v", err)
	}
	ids := make([]string, 0, len(c.Public))
	for id := range c.Public {
		ids = append(ids, string(id))
	}
	sort.Strings(ids)
	aux := hash.New()
	for _, id := range ids {
		p := c.Public[party.ID(id)]
		if p == nil || p.ECDSA == nil {
			return nil, fmt.Errorf("nil public entry for %s", id)
		}
		if v.Shares[id], err = Pt(p.ECDSA); err != nil {
			return nil, fmt.Errorf("public share of %s: %v", id, err)
		}
		_ = aux.WriteAny([]byte(id))
		if p.ElGamal != nil {
			_ = aux.WriteAny(p.ElGamal)
		}
		if p.Paillier != nil {
			_ = aux.WriteAny(p.Paillier)
		}
		if p.Pedersen != nil {
			_ = aux.WriteAny(p.Pedersen)
		}
	}
	_ = aux.WriteAny([]byte(c.RID))
	v.Aux = fmt.Sprintf("%x", aux.Sum()[:12])
	return v, nil
}

func FrostView(c *frost.Config) (*View, error) {
	if c == nil || c.PrivateShare == nil || c.PublicKey == nil || c.VerificationShares == nil {
		return nil, fmt.Errorf("nil fields in config")
	}
	v := &View{ID: c.ID, Threshold: c.Threshold, Shares: map[string]ref.Pt{}, ChainKey: c.ChainKey, Secret: Sc(c.PrivateShare)}
	var err error
	if v.Public, err = Pt(c.PublicKey); err != nil {
		return nil, err
	}
	for id, p := range c.VerificationShares.Points {
		if v.Shares[string(id)], err = Pt(p); err != nil {
			return nil, err
		}
	}
	return v, nil
}

func TaprootView(c *frost.TaprootConfig) (*View, error) {
	if c == nil || c.PrivateShare == nil || c.VerificationShares == nil {
		return nil, fmt.Errorf("nil fields in config")
	}
	v := &View{ID: c.ID, Threshold: c.Threshold, Shares: map[string]ref.Pt{}, ChainKey: c.ChainKey, Secret: Sc(c.PrivateShare), Taproot: true}
	if len(c.PublicKey) != 32 {
		return nil, fmt.Errorf("taproot public key of %d bytes", len(c.PublicKey))
	}
	var err error
	if v.Public, err = ref.LiftX(new(big.Int).SetBytes(c.PublicKey)); err != nil {
		return nil, err
	}
	for id, p := range c.VerificationShares {
		if v.Shares[string(id)], err = Pt(p); err != nil {
			return nil, err
		}
	}
	return v, nil
}

// ViewOf dispatches on the result type of a key generation / refresh.
func ViewOf(r interface{}) (*View, error) {
	switch c := r.(type) {
	case *cmp.Config:
		return CMPView(c)
	case *frost.Config:
		return FrostView(c)
	case *frost.TaprootConfig:
		return TaprootView(c)
	}
	return nil, fmt.Errorf("unexpected key material type %T", r)
}

func subsets(ids []string, k int) [][]string {
	var out [][]string
	var rec func(start int, cur []string)
	rec = func(start int, cur []string) {
		if len(cur) == k {
			out = append(out, append([]string{}, cur...))
			return
		}
		for i := start; i < len(ids); i++ {
			rec(i+1, append(cur, ids[i]))
		}
	}
	rec(0, nil)
	return out
}

// CheckSharing checks the key-generation consistency conditions over the views of all
// parties: same group key, same table, own share matches own entry, every (t+1)-subset of
// secret shares reconstructs a secret whose public key is the group key, the same subsets of
// table entries interpolate to it, and no t-subset does.  It returns one error per failed clause.
func CheckSharing(views map[string]*View, t int) []error {
	var errs []error
	ids := make([]string, 0, len(views))
	for id := range views {
		ids = append(ids, id)
	}
	sort.Strings(ids)
	if len(ids) == 0 {
		return []error{fmt.Errorf("no key material")}
	}
	first := views[ids[0]]
	for _, id := range ids {
		v := views[id]
		if string(v.ID) != id {
			errs = append(errs, fmt.Errorf("clause own-id: material of %s names %s", id, v.ID))
		}
		if v.Threshold != t {
			errs = append(errs, fmt.Errorf("clause threshold: %s reports threshold %d, expected %d", id, v.Threshold, t))
		}
		if !v.Public.Equal(first.Public) {
			errs = append(errs, fmt.Errorf("clause same-group-key: %s and %s report different group keys", ids[0], id))
		}
		if v.Aux != first.Aux {
			errs = append(errs, fmt.Errorf("clause same-aux: %s and %s hold different auxiliary public data", ids[0], id))
		}
		if len(v.Shares) != len(ids) {
			errs = append(errs, fmt.Errorf("clause table-size: %s has %d table entries for %d parties", id, len(v.Shares), len(ids)))
		}
		for _, j := range ids {
			a, ok1 := v.Shares[j]
			b, ok2 := first.Shares[j]
			if !ok1 || !ok2 || !a.Equal(b) {
				errs = append(errs, fmt.Errorf("clause same-table: entry of %s differs between %s and %s", j, ids[0], id))
			}
		}
		if own, ok := v.Shares[id]; !ok || !ref.MulG(v.Secret).Equal(own) {
			errs = append(errs, fmt.Errorf("clause own-share: secret share of %s does not match its table entry", id))
		}
		if v.Secret.Sign() == 0 {
			errs = append(errs, fmt.Errorf("clause nonzero-share: %s holds a zero share", id))
		}
	}
	if first.Public.Inf {
		errs = append(errs, fmt.Errorf("clause group-key: identity"))
	}
	if len(errs) > 0 {
		return errs
	}
	recon := func(sub []string) (ref.Pt, ref.Pt) {
		xs := make([]*big.Int, len(sub))
		ys := make([]*big.Int, len(sub))
		ps := make([]ref.Pt, len(sub))
		for i, id := range sub {
			xs[i] = ref.IDScalar(id)
			ys[i] = views[id].Secret
			ps[i] = first.Shares[id]
		}
		return ref.MulG(ref.Reconstruct(xs, ys)), ref.ReconstructExp(xs, ps)
	}
	for _, sub := range subsets(ids, t+1) {
		a, b := recon(sub)
		if !a.Equal(first.Public) {
			errs = append(errs, fmt.Errorf("clause reconstruct-secret: shares of %v do not reconstruct the group key", sub))
		}
		if !b.Equal(first.Public) {
			errs = append(errs, fmt.Errorf("clause reconstruct-table: table entries of %v do not interpolate to the group key", sub))
		}
	}
	if t >= 1 {
		for _, sub := range subsets(ids, t) {
			a, _ := recon(sub)
			if a.Equal(first.Public) {
				errs = append(errs, fmt.Errorf("clause threshold-too-low: only %d shares %v already reconstruct the key (threshold %d)", t, sub, t))
			}
		}
	}
	return errs
}

// CheckDoerner checks the two-party key material: same public key, which is (sk_R+sk_S)·G, same chain key.
func CheckDoerner(r *doerner.ConfigReceiver, s *doerner.ConfigSender) []error {
	var errs []error
	if r == nil || s == nil || r.Public == nil || s.Public == nil || r.SecretShare == nil || s.SecretShare == nil {
		return []error{fmt.Errorf("nil fields in Doerner material")}
	}
	pr, err1 := Pt(r.Public)
	ps, err2 := Pt(s.Public)
	if err1 != nil || err2 != nil {
		return []error{fmt.Errorf("bad public point: %v %v", err1, err2)}
	}
	if !pr.Equal(ps) {
		errs = append(errs, fmt.Errorf("clause same-group-key: receiver and sender report different public keys"))
	}
	if pr.Inf {
		errs = append(errs, fmt.Errorf("clause group-key: identity"))
	}
	sum := new(big.Int).Add(Sc(r.SecretShare), Sc(s.SecretShare))
	if !ref.MulG(sum).Equal(pr) {
		errs = append(errs, fmt.Errorf("clause reconstruct-secret: sk_R+sk_S is not the secret key of the reported public key"))
	}
	if Sc(r.SecretShare).Sign() == 0 || Sc(s.SecretShare).Sign() == 0 {
		errs = append(errs, fmt.Errorf("clause nonzero-share: a party holds a zero share"))
	}
	if !bytes.Equal(r.ChainKey, s.ChainKey) {
		errs = append(errs, fmt.Errorf("clause same-chain-key: receiver and sender hold different chain keys"))
	}
	return errs
}
