// Package vkit holds what every check binary shares: flags, the result file, violation
// records, panic capture and sharding.
package vkit

import (
	"encoding/json"
	"flag"
	"fmt"
	"os"
	"runtime"
	"runtime/debug"
	"sort"
	"strings"
	"sync"
	"time"
)

type Violation struct {
	Sig    string      `json:"sig"`    // stable signature: scenario + case + failure class (matched against known findings)
	Detail string      `json:"detail"` // human-readable
	Replay interface{} `json:"replay"` // everything needed to re-run this one case
	Count  int64       `json:"count"`
}

type Scenario struct {
	Name        string           `json:"name"`
	Bound       string           `json:"bound"`
	Executions  int64            `json:"executions"`
	States      int64            `json:"states"`
	Transitions int64            `json:"transitions"`
	MaxDepth    int              `json:"max_depth"`
	Outcomes    map[string]int64 `json:"outcomes,omitempty"`
	Complete    bool             `json:"complete"`
	WallS       float64          `json:"wall_s"`
	Note        string           `json:"note,omitempty"`
}

type Result struct {
	mu          sync.Mutex
	Property    string                 `json:"property"`
	Tier        string                 `json:"tier"`
	Seed        int64                  `json:"seed"`
	Evaluations int64                  `json:"evaluations"`
	States      int64                  `json:"states"`
	Transitions int64                  `json:"transitions"`
	Nontrivial  int64                  `json:"distinct_nontrivial"`
	Rule        string                 `json:"rule"`
	Exhaustive  bool                   `json:"exhaustive"`
	Scenarios   []Scenario             `json:"scenarios,omitempty"`
	Samples     []interface{}          `json:"samples"`
	Violations  []*Violation           `json:"violations"`
	HardErrors  []string               `json:"hard_errors"`
	Assumptions []string               `json:"assumptions"`
	Notes       []string               `json:"notes,omitempty"`
	Extra       map[string]interface{} `json:"extra,omitempty"`
	WallS       float64                `json:"wall_s"`
	distinct    map[string]bool
	vio         map[string]*Violation
	t0          time.Time
}

var (
	Tier        = flag.String("tier", "quick", "quick|thorough")
	Seed        = flag.Int64("seed", 1, "seed for DRBGs")
	Out         = flag.String("out", "", "result file")
	Shard       = flag.String("shard", "0/1", "i/n: this process handles cases with index%n==i")
	Replay      = flag.String("replay", "", "replay file: run only that case, verbosely")
	Workers     = flag.Int("workers", runtime.NumCPU(), "parallel workers")
	Budget      = flag.Duration("budget", 0, "internal time budget (0 = tier default)")
	Mode        = flag.String("mode", "explore", "explore | race (free-running pass for the race detector)")
	ResumeAfter = flag.Int("resume-after", 0, "skip cases numbered <= this (used by run.py to continue a shard after a case killed the process)")
	Only        = flag.String("only", "", "substring filter on scenario names (debugging)")
)

var shardI, shardN = 0, 1

func Init(property string) *Result {
	flag.Parse()
	fmt.Sscanf(*Shard, "%d/%d", &shardI, &shardN)
	if shardN <= 0 {
		shardN = 1
	}
	return &Result{Property: property, Tier: *Tier, Seed: *Seed, Exhaustive: true,
		distinct: map[string]bool{}, vio: map[string]*Violation{}, t0: time.Now(), Extra: map[string]interface{}{}}
}

func Thorough() bool { return *Tier == "thorough" }

func ShardI() int { return shardI }
func ShardN() int { return shardN }

// Mine reports whether case number k belongs to this shard.
func Mine(k int) bool { return k%shardN == shardI }

func Want(name string) bool { return *Only == "" || strings.Contains(name, *Only) }

// Case counts one evaluated case; key identifies it for the distinct / non-trivial count
// (empty key = trivial, not counted as distinct).
func (r *Result) Case(key string) {
	r.mu.Lock()
	r.Evaluations++
	if key != "" {
		r.distinct[key] = true
	}
	r.mu.Unlock()
}

func (r *Result) Sample(s interface{}) {
	r.mu.Lock()
	if len(r.Samples) < 12 {
		r.Samples = append(r.Samples, s)
	}
	r.mu.Unlock()
}

func (r *Result) Violate(sig, detail string, replay interface{}) {
	r.mu.Lock()
	defer r.mu.Unlock()
	if v, ok := r.vio[sig]; ok {
		v.Count++
		return
	}
	if len(detail) > 4000 {
		detail = detail[:4000] + "…"
	}
	v := &Violation{Sig: sig, Detail: detail, Replay: replay, Count: 1}
	r.vio[sig] = v
	r.Violations = append(r.Violations, v)
}

func (r *Result) Hard(msg string) {
	r.mu.Lock()
	r.HardErrors = append(r.HardErrors, msg)
	r.Exhaustive = false
	r.mu.Unlock()
}

func (r *Result) Note(msg string) {
	r.mu.Lock()
	r.Notes = append(r.Notes, msg)
	r.mu.Unlock()
}

func (r *Result) AddScenario(s Scenario) {
	r.mu.Lock()
	r.Scenarios = append(r.Scenarios, s)
	r.Evaluations += s.Executions
	r.States += s.States
	r.Transitions += s.Transitions
	if !s.Complete {
		r.Exhaustive = false
	}
	r.mu.Unlock()
}

func (r *Result) Finish() {
	r.mu.Lock()
	r.Nontrivial += int64(len(r.distinct))
	r.WallS = time.Since(r.t0).Seconds()
	sort.Slice(r.Violations, func(i, j int) bool { return r.Violations[i].Sig < r.Violations[j].Sig })
	if r.Samples == nil {
		r.Samples = []interface{}{}
	}
	if r.Violations == nil {
		r.Violations = []*Violation{}
	}
	if r.HardErrors == nil {
		r.HardErrors = []string{}
	}
	if r.Assumptions == nil {
		r.Assumptions = []string{}
	}
	b, _ := json.MarshalIndent(r, "", " ")
	r.mu.Unlock()
	if *Out != "" {
		if err := os.WriteFile(*Out, b, 0o644); err != nil {
			fmt.Fprintln(os.Stderr, "cannot write result:", err)
			os.Exit(2)
		}
	} else {
		os.Stdout.Write(b)
		fmt.Println()
	}
}

// Deadline returns the internal deadline for this tier (zero time = none).
func Deadline(quick, thorough time.Duration) time.Time {
	d := quick
	if Thorough() {
		d = thorough
	}
	if *Budget > 0 {
		d = *Budget
	}
	if d == 0 {
		return time.Time{}
	}
	return time.Now().Add(d)
}

// Try runs f and converts a panic into (message, innermost repository frame).
func Try(f func()) (panicked bool, msg string, frame string) {
	defer func() {
		if r := recover(); r != nil {
			panicked = true
			msg = fmt.Sprint(r)
			frame = RepoFrame(string(debug.Stack()))
		}
	}()
	f()
	return
}

// RepoFrame extracts the innermost function of the repository (not harness, not runtime) from a stack dump.
func RepoFrame(stack string) string {
	lines := strings.Split(stack, "\n")
	const mod = "github.com/taurusgroup/multi-party-sig/"
	for _, l := range lines {
		l = strings.TrimSpace(l)
		if strings.HasPrefix(l, mod) && !strings.Contains(l, "/zzverif/") {
			fn := strings.TrimPrefix(l, mod)
			if i := strings.LastIndex(fn, "("); i > 0 {
				fn = fn[:i]
			}
			return fn
		}
	}
	// third-party frame (e.g. saferith, cbor)
	for _, l := range lines {
		l = strings.TrimSpace(l)
		if strings.HasPrefix(l, "github.com/") && !strings.Contains(l, "/zzverif/") {
			if i := strings.LastIndex(l, "("); i > 0 {
				l = l[:i]
			}
			return l
		}
	}
	return "?"
}

// LoadReplay reads the replay descriptor given with -replay into v.
func LoadReplay(v interface{}) bool {
	if *Replay == "" {
		return false
	}
	b, err := os.ReadFile(*Replay)
	if err != nil {
		fmt.Fprintln(os.Stderr, err)
		os.Exit(2)
	}
	var wrap struct {
		Replay json.RawMessage `json:"replay"`
	}
	if err := json.Unmarshal(b, &wrap); err != nil || wrap.Replay == nil {
		fmt.Fprintln(os.Stderr, "bad replay file")
		os.Exit(2)
	}
	if err := json.Unmarshal(wrap.Replay, v); err != nil {
		fmt.Fprintln(os.Stderr, err)
		os.Exit(2)
	}
	return true
}

// Progress records the case about to be executed, so that the parent can attribute a death of
// the process (fatal error: out of memory, stack overflow, ...) to it and resume after it; the
// results gathered so far are checkpointed to the result file first.
func (r *Result) Progress(n int, sig string, replay interface{}) {
	if *Out == "" {
		return
	}
	r.mu.Lock()
	saveN, saveW := r.Nontrivial, r.WallS
	r.Nontrivial += int64(len(r.distinct))
	r.WallS = time.Since(r.t0).Seconds()
	b, _ := json.Marshal(r)
	r.Nontrivial, r.WallS = saveN, saveW
	r.mu.Unlock()
	_ = os.WriteFile(*Out+".tmp", b, 0o644)
	_ = os.Rename(*Out+".tmp", *Out)
	pb, _ := json.Marshal(map[string]interface{}{"n": n, "sig": sig, "replay": replay})
	_ = os.WriteFile(*Out+".progress", pb, 0o644)
}
