// Package ref holds independent reference implementations (math/big, crypto/sha256,
// crypto/hmac only) used as oracles: secp256k1 affine arithmetic, ECDSA, BIP-340, BIP-32
// public derivation, Shamir/Lagrange reconstruction.  Nothing here calls the library's
// arithmetic; conversions from library values go through their byte encodings.
package ref

import (
	"crypto/hmac"
	"crypto/sha256"
	"crypto/sha512"
	"encoding/binary"
	"errors"
	"math/big"
)

var (
	P, _  = new(big.Int).SetString("FFFFFFFFFFFFFFFFFFFFFFFFFFFFFFFFFFFFFFFFFFFFFFFFFFFFFFFEFFFFFC2F", 16)
	N, _  = new(big.Int).SetString("FFFFFFFFFFFFFFFFFFFFFFFFFFFFFFFEBAAEDCE6AF48A03BBFD25E8CD0364141", 16)
	Gx, _ = new(big.Int).SetString("79BE667EF9DCBBAC55A06295CE870B07029BFCDB2DCE28D959F2815B16F81798", 16)
	Gy, _ = new(big.Int).SetString("483ADA7726A3C4655DA4FBFC0E1108A8FD17B448A68554199C47D08FFB10D4B8", 16)
	G     = Pt{X: Gx, Y: Gy}
	one   = big.NewInt(1)
	two   = big.NewInt(2)
	three = big.NewInt(3)
	seven = big.NewInt(7)
)

// Pt is an affine point; Inf marks the point at infinity.
type Pt struct {
	X, Y *big.Int
	Inf  bool
}

var Infinity = Pt{Inf: true}

func modP(x *big.Int) *big.Int { return x.Mod(x, P) }

func (a Pt) Equal(b Pt) bool {
	if a.Inf || b.Inf {
		return a.Inf == b.Inf
	}
	return a.X.Cmp(b.X) == 0 && a.Y.Cmp(b.Y) == 0
}

func (a Pt) OnCurve() bool {
	if a.Inf {
		return true
	}
	if a.X.Sign() < 0 || a.X.Cmp(P) >= 0 || a.Y.Sign() < 0 || a.Y.Cmp(P) >= 0 {
		return false
	}
	l := new(big.Int).Mul(a.Y, a.Y)
	modP(l)
	r := new(big.Int).Mul(a.X, a.X)
	r.Mul(r, a.X).Add(r, seven)
	modP(r)
	return l.Cmp(r) == 0
}

func (a Pt) Neg() Pt {
	if a.Inf {
		return a
	}
	return Pt{X: new(big.Int).Set(a.X), Y: modP(new(big.Int).Sub(P, a.Y))}
}

func Add(a, b Pt) Pt {
	if a.Inf {
		return b
	}
	if b.Inf {
		return a
	}
	var lam *big.Int
	if a.X.Cmp(b.X) == 0 {
		if a.Y.Cmp(b.Y) != 0 || a.Y.Sign() == 0 {
			return Infinity
		}
		// doubling: 3x^2 / 2y
		num := new(big.Int).Mul(a.X, a.X)
		num.Mul(num, three)
		den := new(big.Int).Mul(a.Y, two)
		den.ModInverse(modP(den), P)
		lam = modP(num.Mul(num, den))
	} else {
		num := new(big.Int).Sub(b.Y, a.Y)
		den := new(big.Int).Sub(b.X, a.X)
		den.ModInverse(modP(den), P)
		lam = modP(num.Mul(modP(num), den))
	}
	x := new(big.Int).Mul(lam, lam)
	x.Sub(x, a.X).Sub(x, b.X)
	modP(x)
	y := new(big.Int).Sub(a.X, x)
	y.Mul(y, lam).Sub(y, a.Y)
	modP(y)
	return Pt{X: x, Y: y}
}

// Mul computes k*a for any integer k (reduced mod N first).
func Mul(k *big.Int, a Pt) Pt {
	k = new(big.Int).Mod(k, N)
	r := Infinity
	for i := k.BitLen() - 1; i >= 0; i-- {
		r = Add(r, r)
		if k.Bit(i) == 1 {
			r = Add(r, a)
		}
	}
	return r
}

func MulG(k *big.Int) Pt { return Mul(k, G) }

// LiftX returns the point with the given x and even y (BIP-340 lift_x), or an error.
func LiftX(x *big.Int) (Pt, error) {
	if x.Sign() < 0 || x.Cmp(P) >= 0 {
		return Pt{}, errors.New("x out of range")
	}
	c := new(big.Int).Mul(x, x)
	c.Mul(c, x).Add(c, seven)
	modP(c)
	e := new(big.Int).Add(P, one)
	e.Rsh(e, 2)
	y := new(big.Int).Exp(c, e, P)
	if new(big.Int).Exp(y, two, P).Cmp(c) != 0 {
		return Pt{}, errors.New("not on curve")
	}
	if y.Bit(0) == 1 {
		y.Sub(P, y)
	}
	return Pt{X: new(big.Int).Set(x), Y: y}, nil
}

// ParseCompressed decodes a SEC1 compressed point strictly: 33 bytes, prefix 02 or 03, x<p, on curve.
func ParseCompressed(b []byte) (Pt, error) {
	if len(b) != 33 {
		return Pt{}, errors.New("length")
	}
	if b[0] != 2 && b[0] != 3 {
		return Pt{}, errors.New("prefix")
	}
	p, err := LiftX(new(big.Int).SetBytes(b[1:]))
	if err != nil {
		return Pt{}, err
	}
	if b[0] == 3 {
		p = p.Neg()
	}
	return p, nil
}

func (a Pt) Compressed() []byte {
	out := make([]byte, 33)
	out[0] = 2 + byte(a.Y.Bit(0))
	a.X.FillBytes(out[1:])
	return out
}

func (a Pt) XBytes() []byte {
	out := make([]byte, 32)
	a.X.FillBytes(out)
	return out
}

// Marshaler is what library points and scalars offer.
type Marshaler interface{ MarshalBinary() ([]byte, error) }

// FromLibPoint converts a library point through its compressed encoding (identity handled by the caller's flag).
func FromLibPoint(p Marshaler, isIdentity bool) (Pt, error) {
	if isIdentity {
		return Infinity, nil
	}
	b, err := p.MarshalBinary()
	if err != nil {
		return Pt{}, err
	}
	return ParseCompressed(b)
}

func FromLibScalar(s Marshaler) *big.Int {
	b, err := s.MarshalBinary()
	if err != nil {
		panic(err)
	}
	return new(big.Int).SetBytes(b)
}

// ---- ECDSA ------------------------------------------------------------------------------------

// HashToInt is bits2int for a 256-bit order: the leftmost 32 bytes as a big-endian integer.
func HashToInt(h []byte) *big.Int {
	if len(h) > 32 {
		h = h[:32]
	}
	return new(big.Int).SetBytes(h)
}

// ECDSAVerify is textbook ECDSA verification of (r, s) for public key Q and message hash h.
func ECDSAVerify(Q Pt, h []byte, r, s *big.Int) bool {
	if Q.Inf || !Q.OnCurve() {
		return false
	}
	if r.Sign() <= 0 || r.Cmp(N) >= 0 || s.Sign() <= 0 || s.Cmp(N) >= 0 {
		return false
	}
	e := HashToInt(h)
	w := new(big.Int).ModInverse(s, N)
	u1 := new(big.Int).Mul(e, w)
	u1.Mod(u1, N)
	u2 := new(big.Int).Mul(r, w)
	u2.Mod(u2, N)
	R := Add(MulG(u1), Mul(u2, Q))
	if R.Inf {
		return false
	}
	return new(big.Int).Mod(R.X, N).Cmp(r) == 0
}

// ECDSANoncePoint returns s^-1 (e G + r Q): the nonce point the equation determines.
func ECDSANoncePoint(Q Pt, h []byte, r, s *big.Int) Pt {
	e := HashToInt(h)
	w := new(big.Int).ModInverse(s, N)
	if w == nil {
		return Infinity
	}
	u1 := new(big.Int).Mul(e, w)
	u2 := new(big.Int).Mul(r, w)
	return Add(MulG(u1), Mul(u2, Q))
}

// EcRecover is standard public-key recovery: v in {0,1} is the parity of R.y (r < n assumed to be R.x).
func EcRecover(h []byte, r, s *big.Int, v byte) (Pt, error) {
	if r.Sign() <= 0 || r.Cmp(N) >= 0 || s.Sign() <= 0 || s.Cmp(N) >= 0 || v > 1 {
		return Pt{}, errors.New("range")
	}
	R, err := LiftX(r)
	if err != nil {
		return Pt{}, err
	}
	if v == 1 {
		R = R.Neg()
	}
	rInv := new(big.Int).ModInverse(r, N)
	e := HashToInt(h)
	// Q = r^-1 (s R - e G)
	sR := Mul(s, R)
	eG := MulG(e).Neg()
	return Mul(rInv, Add(sR, eG)), nil
}

// ---- BIP-340 ----------------------------------------------------------------------------------

func TaggedHash(tag string, parts ...[]byte) []byte {
	t := sha256.Sum256([]byte(tag))
	h := sha256.New()
	h.Write(t[:])
	h.Write(t[:])
	for _, p := range parts {
		h.Write(p)
	}
	return h.Sum(nil)
}

func BIP340PubKey(sk []byte) ([]byte, error) {
	d := new(big.Int).SetBytes(sk)
	if len(sk) != 32 || d.Sign() == 0 || d.Cmp(N) >= 0 {
		return nil, errors.New("invalid secret key")
	}
	return MulG(d).XBytes(), nil
}

func BIP340Sign(sk, msg, aux []byte) ([]byte, error) {
	d0 := new(big.Int).SetBytes(sk)
	if len(sk) != 32 || d0.Sign() == 0 || d0.Cmp(N) >= 0 {
		return nil, errors.New("invalid secret key")
	}
	Pp := MulG(d0)
	d := d0
	if Pp.Y.Bit(0) == 1 {
		d = new(big.Int).Sub(N, d0)
	}
	t := make([]byte, 32)
	d.FillBytes(t)
	ah := TaggedHash("BIP0340/aux", aux)
	for i := range t {
		t[i] ^= ah[i]
	}
	k0 := new(big.Int).SetBytes(TaggedHash("BIP0340/nonce", t, Pp.XBytes(), msg))
	k0.Mod(k0, N)
	if k0.Sign() == 0 {
		return nil, errors.New("zero nonce")
	}
	R := MulG(k0)
	k := k0
	if R.Y.Bit(0) == 1 {
		k = new(big.Int).Sub(N, k0)
	}
	e := new(big.Int).SetBytes(TaggedHash("BIP0340/challenge", R.XBytes(), Pp.XBytes(), msg))
	e.Mod(e, N)
	s := new(big.Int).Mul(e, d)
	s.Add(s, k).Mod(s, N)
	sig := make([]byte, 64)
	copy(sig, R.XBytes())
	s.FillBytes(sig[32:])
	return sig, nil
}

func BIP340Verify(pk, msg, sig []byte) bool {
	if len(pk) != 32 || len(sig) != 64 {
		return false
	}
	Pp, err := LiftX(new(big.Int).SetBytes(pk))
	if err != nil {
		return false
	}
	r := new(big.Int).SetBytes(sig[:32])
	s := new(big.Int).SetBytes(sig[32:])
	if r.Cmp(P) >= 0 || s.Cmp(N) >= 0 {
		return false
	}
	e := new(big.Int).SetBytes(TaggedHash("BIP0340/challenge", sig[:32], pk, msg))
	e.Mod(e, N)
	R := Add(MulG(s), Mul(new(big.Int).Sub(N, e), Pp))
	if R.Inf || R.Y.Bit(0) == 1 || R.X.Cmp(r) != 0 {
		return false
	}
	return true
}

// ---- BIP-32 public derivation -------------------------------------------------------------------

// CKDpub: non-hardened child of (parent public key, chain code).
func CKDpub(parent Pt, chain []byte, index uint32) (Pt, []byte, error) {
	if index >= 1<<31 {
		return Pt{}, nil, errors.New("hardened index")
	}
	mac := hmac.New(sha512.New, chain)
	mac.Write(parent.Compressed())
	var ib [4]byte
	binary.BigEndian.PutUint32(ib[:], index)
	mac.Write(ib[:])
	I := mac.Sum(nil)
	il := new(big.Int).SetBytes(I[:32])
	if il.Cmp(N) >= 0 {
		return Pt{}, nil, errors.New("IL >= n")
	}
	child := Add(MulG(il), parent)
	if child.Inf {
		return Pt{}, nil, errors.New("infinity")
	}
	return child, I[32:], nil
}

// CKDpubScalar returns IL (the additive tweak) as well.
func CKDTweak(parent Pt, chain []byte, index uint32) *big.Int {
	mac := hmac.New(sha512.New, chain)
	mac.Write(parent.Compressed())
	var ib [4]byte
	binary.BigEndian.PutUint32(ib[:], index)
	mac.Write(ib[:])
	I := mac.Sum(nil)
	return new(big.Int).SetBytes(I[:32])
}

// ---- Shamir / Lagrange ----------------------------------------------------------------------------

// IDScalar maps a party identifier to its evaluation point: big-endian bytes mod n.
func IDScalar(id string) *big.Int {
	x := new(big.Int).SetBytes([]byte(id))
	return x.Mod(x, N)
}

// LagrangeAtZero returns the coefficients l_i with sum l_i f(x_i) = f(0).
func LagrangeAtZero(xs []*big.Int) []*big.Int {
	out := make([]*big.Int, len(xs))
	for i, xi := range xs {
		num, den := big.NewInt(1), big.NewInt(1)
		for j, xj := range xs {
			if i == j {
				continue
			}
			num.Mul(num, xj).Mod(num, N)
			d := new(big.Int).Sub(xj, xi)
			den.Mul(den, d.Mod(d, N)).Mod(den, N)
		}
		inv := new(big.Int).ModInverse(den, N)
		if inv == nil {
			out[i] = big.NewInt(0)
			continue
		}
		out[i] = num.Mul(num, inv).Mod(num, N)
	}
	return out
}

// Reconstruct interpolates the secret shares ys at points xs.
func Reconstruct(xs, ys []*big.Int) *big.Int {
	l := LagrangeAtZero(xs)
	s := big.NewInt(0)
	for i := range xs {
		s.Add(s, new(big.Int).Mul(l[i], ys[i]))
	}
	return s.Mod(s, N)
}

// ReconstructExp interpolates public shares "in the exponent".
func ReconstructExp(xs []*big.Int, ps []Pt) Pt {
	l := LagrangeAtZero(xs)
	r := Infinity
	for i := range xs {
		r = Add(r, Mul(l[i], ps[i]))
	}
	return r
}
