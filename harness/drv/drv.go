// Package drv is the sequential network driver shared by the searches: deterministic
// randomness (one seam: crypto/rand.Reader), parties wrapping real protocol handlers, and
// a pending-message multiset whose delivery order is the explorer's choice.
package drv

import (
	"crypto/rand"
	"crypto/sha256"
	"encoding/binary"
	"encoding/hex"
	"errors"
	"fmt"
	"io"
	"reflect"
	"runtime"
	"sort"
	"strings"
	"sync"
	"time"
	"unsafe"

	"github.com/taurusgroup/multi-party-sig/internal/round"
	"github.com/taurusgroup/multi-party-sig/pkg/party"
	"github.com/taurusgroup/multi-party-sig/pkg/protocol"
	"github.com/taurusgroup/multi-party-sig/protocols/example"
)

// ---- deterministic randomness ---------------------------------------------------------------

// DRBG is SHA-256 in counter mode.
type DRBG struct {
	key  [32]byte
	ctr  uint64
	buf  []byte
	Mode int // 0 honest (seeded), 1 constant zeros, 2 constant 0xAA
	Slot int // position of the owning party (used to pick disjoint pre-generated primes)
}

func NewDRBG(label string, seed int64) *DRBG {
	d := &DRBG{}
	d.key = sha256.Sum256([]byte(fmt.Sprintf("verif-drbg|%s|%d", label, seed)))
	return d
}

func (d *DRBG) Read(p []byte) (int, error) {
	switch d.Mode {
	case 1:
		for i := range p {
			p[i] = 0
		}
		return len(p), nil
	case 2:
		for i := range p {
			p[i] = 0xAA
		}
		return len(p), nil
	}
	n := len(p)
	for len(p) > 0 {
		if len(d.buf) == 0 {
			var blk [40]byte
			copy(blk[:], d.key[:])
			binary.BigEndian.PutUint64(blk[32:], d.ctr)
			d.ctr++
			s := sha256.Sum256(blk[:])
			d.buf = s[:]
		}
		k := copy(p, d.buf)
		p, d.buf = p[k:], d.buf[k:]
	}
	return n, nil
}

// Clone returns an independent copy at the same position.
func (d *DRBG) Clone() *DRBG {
	c := *d
	c.buf = append([]byte{}, d.buf...)
	return &c
}

type switchReader struct {
	mu  sync.Mutex
	cur io.Reader
}

func (s *switchReader) Read(p []byte) (int, error) {
	s.mu.Lock()
	defer s.mu.Unlock()
	return s.cur.Read(p)
}

var sw = &switchReader{cur: NewDRBG("default", 0)}
var realReader io.Reader

// notFinished holds the texts of the error Result() returns while a session is running.  They are
// LEARNED from the library at start-up (a freshly started multi-party and two-party handler that has
// not been given any message is by definition not finished), so that rewording the error does not
// turn every running session into an "error" in the eyes of the checks.
var notFinished = map[string]bool{"protocol: not finished": true}

// IsNotFinished reports whether err is the library's "session still running" answer of Result().
func IsNotFinished(err error) bool { return err != nil && notFinished[err.Error()] }

func calibrate() {
	defer func() { recover() }()
	ids := party.NewIDSlice([]party.ID{"a", "b"})
	if h, err := protocol.NewMultiHandler(example.StartXOR("a", ids), nil); err == nil && h != nil {
		go func() {
			for range h.Listen() {
			}
		}()
		if r, e := h.Result(); r == nil && e != nil {
			notFinished[e.Error()] = true
		}
	}
	if h, err := protocol.NewTwoPartyHandler(example.StartXOR("a", ids), nil, false); err == nil && h != nil {
		go func() {
			for range h.Listen() {
			}
		}()
		if r, e := h.Result(); r == nil && e != nil {
			notFinished[e.Error()] = true
		}
	}
}

// Install replaces crypto/rand.Reader by the switchable deterministic reader.
func Install() {
	calibrate()
	if realReader == nil {
		realReader = rand.Reader
	}
	rand.Reader = sw
}

// Use makes r the source of all library randomness until the next call.
func Use(r io.Reader) {
	sw.mu.Lock()
	sw.cur = r
	sw.mu.Unlock()
}

// ReadCurrent reads from the reader currently in use (the acting party's stream).
func ReadCurrent(p []byte) {
	sw.mu.Lock()
	defer sw.mu.Unlock()
	sw.cur.Read(p)
}

// CurrentSlot returns the Slot of the DRBG in use (0 if the reader is not a DRBG).
func CurrentSlot() int {
	sw.mu.Lock()
	defer sw.mu.Unlock()
	if d, ok := sw.cur.(*DRBG); ok {
		return d.Slot
	}
	return 0
}

// ---- parties ----------------------------------------------------------------------------------

// CallTimeout is the safety net for a handler call that never returns.
var CallTimeout = 120 * time.Second

type Party struct {
	ID         party.ID
	H          protocol.Handler
	Rng        io.Reader
	ch         <-chan *protocol.Message
	Closed     bool // outgoing channel observed closed
	CloseCount int
	Sent       []*protocol.Message // everything emitted so far, in order
	fresh      []*protocol.Message // emitted since the last Take
	Panic      string              // first panic observed in a call on this party ("" = none)
	PanicFrame string
	PanicStack string
	Hung       string // non-empty: a call did not return; holds the goroutine dump
}

// Call runs f (a handler call) on its own goroutine while draining the party's outgoing
// channel from the calling goroutine, so the call can never block on a full channel and the
// order of collected messages is deterministic.
func (p *Party) call(f func()) {
	if p.Rng != nil {
		Use(p.Rng)
	}
	done := make(chan [2]string, 1)
	go func() {
		defer func() {
			if r := recover(); r != nil {
				buf := make([]byte, 16384)
				buf = buf[:runtime.Stack(buf, false)]
				done <- [2]string{fmt.Sprint(r), string(buf)}
				return
			}
			done <- [2]string{"", ""}
		}()
		f()
	}()
	timer := time.NewTimer(CallTimeout)
	defer timer.Stop()
	for {
		select {
		case r := <-done:
			if r[0] != "" && p.Panic == "" {
				p.Panic = r[0]
				p.PanicFrame = repoFrame(r[1])
				p.PanicStack = r[1]
			}
			p.drain()
			return
		case m, ok := <-p.ch:
			p.collect(m, ok)
		case <-timer.C:
			buf := make([]byte, 1<<16)
			p.Hung = string(buf[:runtime.Stack(buf, true)])
			return
		}
	}
}

func (p *Party) collect(m *protocol.Message, ok bool) {
	if !ok {
		p.Closed = true
		p.ch = nil
		return
	}
	p.Sent = append(p.Sent, m)
	p.fresh = append(p.fresh, m)
}

func (p *Party) drain() {
	for p.ch != nil {
		select {
		case m, ok := <-p.ch:
			p.collect(m, ok)
		default:
			return
		}
	}
}

// Guard runs an arbitrary handler call with panic capture, hang detection and draining.
func (p *Party) Guard(f func()) { p.call(f) }

// Take returns the messages emitted since the previous Take.
func (p *Party) Take() []*protocol.Message {
	f := p.fresh
	p.fresh = nil
	return f
}

// NewParty builds the handler with create (run under the party's randomness) and collects
// the first-round messages.  A constructor that does not return is reported in Hung.
func NewParty(id party.ID, rng io.Reader, create func() (protocol.Handler, error)) (*Party, error) {
	p := &Party{ID: id, Rng: rng}
	var err error
	var h protocol.Handler
	// the constructor may block on a full outgoing channel that nobody can drain yet
	p.call(func() { h, err = create() })
	if p.Hung != "" || p.Panic != "" {
		return p, nil
	}
	if err != nil {
		return nil, err
	}
	p.H = h
	p.ch = h.Listen()
	p.drain()
	return p, nil
}

// Deliver offers m to the party exactly as a network loop would: CanAccept, then Accept.
// It returns whether CanAccept said yes.
func (p *Party) Deliver(m *protocol.Message) (accepted bool) {
	if p.H == nil {
		return false
	}
	p.call(func() {
		if p.H.CanAccept(m) {
			accepted = true
			p.H.Accept(m)
		}
	})
	return
}

// Force calls Accept without asking CanAccept.
func (p *Party) Force(m *protocol.Message) {
	if p.H == nil {
		return
	}
	p.call(func() { p.H.Accept(m) })
}

func (p *Party) Result() (interface{}, error) {
	if p.Hung != "" {
		return nil, errors.New("harness: an earlier call on this handler never returned")
	}
	return p.H.Result()
}

// Status: "running", "done", "error".
func (p *Party) Status() string {
	if p.H == nil {
		return "noh"
	}
	r, err := p.Result()
	if r != nil {
		return "done"
	}
	if IsNotFinished(err) {
		return "running"
	}
	return "error"
}

func repoFrame(stack string) string {
	const mod = "github.com/taurusgroup/multi-party-sig/"
	for _, l := range strings.Split(stack, "\n") {
		l = strings.TrimSpace(l)
		if strings.HasPrefix(l, mod) && !strings.Contains(l, "/zzverif/") {
			fn := strings.TrimPrefix(l, mod)
			if i := strings.LastIndex(fn, "("); i > 0 {
				fn = fn[:i]
			}
			return fn
		}
	}
	for _, l := range strings.Split(stack, "\n") {
		l = strings.TrimSpace(l)
		if strings.HasPrefix(l, "github.com/") && !strings.Contains(l, "/zzverif/") {
			if i := strings.LastIndex(l, "("); i > 0 {
				l = l[:i]
			}
			return l
		}
	}
	return "?"
}

// ---- messages ---------------------------------------------------------------------------------

// MsgID is the canonical identity of a message: independent of emission order.
func MsgID(m *protocol.Message) string {
	b := "p"
	if m.Broadcast {
		b = "b"
	}
	d := sha256.Sum256(m.Data)
	return fmt.Sprintf("%02d|%s|%s|%s|%s", m.RoundNumber, m.From, m.To, b, hex.EncodeToString(d[:6]))
}

// Short is a readable label.
func Short(m *protocol.Message) string {
	b := ""
	if m.Broadcast {
		b = "!"
	}
	to := string(m.To)
	if to == "" {
		to = "*"
	}
	return fmt.Sprintf("r%d%s:%s>%s", m.RoundNumber, b, m.From, to)
}

func SortMsgs(ms []*protocol.Message) {
	sort.SliceStable(ms, func(i, j int) bool { return MsgID(ms[i]) < MsgID(ms[j]) })
}

func CloneMsg(m *protocol.Message) *protocol.Message {
	c := *m
	c.SSID = append([]byte(nil), m.SSID...)
	c.Data = append([]byte(nil), m.Data...)
	if m.BroadcastVerification != nil {
		c.BroadcastVerification = append([]byte(nil), m.BroadcastVerification...)
	}
	return &c
}

// ---- a whole network ----------------------------------------------------------------------------

type Net struct {
	IDs     []party.ID
	Parties map[party.ID]*Party
	// Queue holds (message, recipient) deliveries not yet made, in canonical order of creation
	Queue []Delivery
	Log   []string
	Steps int
}

type Delivery struct {
	M  *protocol.Message
	To party.ID
}

func NewNet() *Net { return &Net{Parties: map[party.ID]*Party{}} }

func (n *Net) Add(p *Party) {
	n.IDs = append(n.IDs, p.ID)
	n.Parties[p.ID] = p
}

// Flush moves freshly emitted messages of all parties into the delivery queue, in party
// order and canonical message order, expanding broadcasts/to-all into one delivery per recipient.
func (n *Net) Flush() {
	for _, id := range n.IDs {
		p := n.Parties[id]
		ms := p.Take()
		SortMsgs(ms)
		for _, m := range ms {
			for _, to := range n.IDs {
				if m.IsFor(to) {
					n.Queue = append(n.Queue, Delivery{M: m, To: to})
				}
			}
		}
	}
}

// DeliverAt delivers queue element i.
func (n *Net) DeliverAt(i int) {
	d := n.Queue[i]
	n.Queue = append(n.Queue[:i:i], n.Queue[i+1:]...)
	n.Parties[d.To].Deliver(d.M)
	n.Steps++
	n.Flush()
}

// RunFIFO delivers everything in queue order until the queue is empty (the in-order run).
func (n *Net) RunFIFO(maxSteps int) {
	n.Flush()
	for len(n.Queue) > 0 && n.Steps < maxSteps {
		n.DeliverAt(0)
	}
}

func (n *Net) AnyPanic() (party.ID, string, string) {
	for _, id := range n.IDs {
		if p := n.Parties[id]; p.Panic != "" {
			return id, p.Panic, p.PanicFrame
		}
	}
	return "", "", ""
}
func (n *Net) AnyHung() (party.ID, string) {
	for _, id := range n.IDs {
		if p := n.Parties[id]; p.Hung != "" {
			return id, p.Hung
		}
	}
	return "", ""
}

// ---- peeking into handler state (read-only, by reflection) ------------------------------------

type Peeked struct {
	HasErr, HasResult bool
	Err               string
	Round             int
}

func field(v reflect.Value, name string) (reflect.Value, bool) {
	f := v.FieldByName(name)
	if !f.IsValid() {
		return f, false
	}
	return reflect.NewAt(f.Type(), unsafe.Pointer(f.UnsafeAddr())).Elem(), true
}

// Peek reads err/result/current round of a MultiHandler or TwoPartyHandler without locking.
func Peek(h protocol.Handler) (p Peeked, ok bool) {
	v := reflect.ValueOf(h)
	if v.Kind() != reflect.Ptr {
		return p, false
	}
	v = v.Elem()
	e, ok1 := field(v, "err")
	r, ok2 := field(v, "result")
	if !ok1 || !ok2 {
		return p, false
	}
	if !e.IsNil() {
		p.HasErr = true
		switch x := e.Interface().(type) {
		case *protocol.Error:
			p.Err = x.Error()
		case error:
			p.Err = x.Error()
		}
	}
	p.HasResult = !r.IsNil()
	for _, nm := range []string{"currentRound", "round"} {
		if c, ok := field(v, nm); ok && !c.IsNil() {
			if s, ok := c.Interface().(interface{ Number() round.Number }); ok {
				p.Round = int(s.Number())
			}
		}
	}
	return p, true
}
