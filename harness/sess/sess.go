// Package sess builds and runs sessions of the repository's real protocols through the
// sequential deterministic driver: one place that knows every start function.
package sess

import (
	"encoding/json"
	"fmt"
	"math/big"
	"os"
	"sync"

	"github.com/cronokirby/saferith"
	"github.com/taurusgroup/multi-party-sig/internal/zzverif/drv"
	"github.com/taurusgroup/multi-party-sig/pkg/ecdsa"
	"github.com/taurusgroup/multi-party-sig/pkg/math/curve"
	"github.com/taurusgroup/multi-party-sig/pkg/math/sample"
	"github.com/taurusgroup/multi-party-sig/pkg/party"
	"github.com/taurusgroup/multi-party-sig/pkg/pool"
	"github.com/taurusgroup/multi-party-sig/pkg/protocol"
	"github.com/taurusgroup/multi-party-sig/protocols/cmp"
	"github.com/taurusgroup/multi-party-sig/protocols/cmp/presign"
	"github.com/taurusgroup/multi-party-sig/protocols/doerner"
	"github.com/taurusgroup/multi-party-sig/protocols/frost"
)

var Group = curve.Secp256k1{}

// PoolWorkers > 0 makes every start function below hand the protocol a worker pool of that size
// (created once per process); 0 = nil pool, everything runs on the calling goroutine.  With a pool
// the verification of a peer's message partly runs on pool goroutines, where a panic cannot be
// recovered by the handler and kills the process.
var PoolWorkers int

// OwnFirst makes every party hand the library the signer list rotated so that its own identifier comes
// first (each party a different order of the same set): the order in which an application lists the signers
// must not matter.
var OwnFirst bool

func ownFirst(self party.ID, signers []party.ID) []party.ID {
	if !OwnFirst {
		return signers
	}
	for i, id := range signers {
		if id == self {
			return append(append([]party.ID{}, signers[i:]...), signers[:i]...)
		}
	}
	return signers
}

var thePool *pool.Pool

func pl() *pool.Pool {
	if PoolWorkers <= 0 {
		return nil
	}
	if thePool == nil {
		thePool = pool.NewPool(PoolWorkers)
	}
	return thePool
}

// Spec describes one session: who takes part and how each party's handler is started.
type Spec struct {
	Name      string
	IDs       []party.ID
	Two       bool              // TwoPartyHandler
	Leader    map[party.ID]bool // two-party: leader flag per party
	Start     func(id party.ID) protocol.StartFunc
	SessionID []byte
}

func (s *Spec) NewHandler(id party.ID) (protocol.Handler, error) {
	sf := s.Start(id)
	if sf == nil {
		return nil, fmt.Errorf("no start function for %s", id)
	}
	if s.Two {
		return protocol.NewTwoPartyHandler(sf, s.SessionID, s.Leader[id])
	}
	return protocol.NewMultiHandler(sf, s.SessionID)
}

// Outcome of an in-order run.
type Outcome struct {
	Net      *drv.Net
	Results  map[party.ID]interface{}
	Errors   map[party.ID]error
	StartErr map[party.ID]error
	Panic    string // "<party>: <msg> in <frame>" of the first panic, if any
	Hung     string
	Stuck    []party.ID // parties still running when the network went quiet
}

func (o *Outcome) AllDone(ids []party.ID) bool {
	for _, id := range ids {
		if o.Results[id] == nil {
			return false
		}
	}
	return true
}

// Build creates the parties (constructors run under each party's DRBG).
func Build(s *Spec, seed int64, label string) (*drv.Net, map[party.ID]error) {
	InstallPrimes()
	net := drv.NewNet()
	startErr := map[party.ID]error{}
	for i, id := range s.IDs {
		id := id
		rng := drv.NewDRBG(label+"|"+s.Name+"|"+string(id), seed)
		rng.Slot = i
		p, err := drv.NewParty(id, rng, func() (protocol.Handler, error) { return s.NewHandler(id) })
		if err != nil {
			startErr[id] = err
			continue
		}
		net.Add(p)
	}
	return net, startErr
}

// Run executes the session in order (FIFO) to quiescence.
func Run(s *Spec, seed int64, label string) *Outcome {
	net, startErr := Build(s, seed, label)
	o := &Outcome{Net: net, Results: map[party.ID]interface{}{}, Errors: map[party.ID]error{}, StartErr: startErr}
	if len(startErr) == 0 {
		net.RunFIFO(100000)
	}
	Collect(o)
	return o
}

// Collect fills results / errors / panic / stuck from the net's current state.
func Collect(o *Outcome) {
	for _, id := range o.Net.IDs {
		p := o.Net.Parties[id]
		if p.Panic != "" && o.Panic == "" {
			o.Panic = fmt.Sprintf("%s: %s in %s", id, p.Panic, p.PanicFrame)
		}
		if p.Hung != "" && o.Hung == "" {
			o.Hung = string(id)
		}
		if p.H == nil || p.Hung != "" {
			continue
		}
		r, err := p.Result()
		if r != nil {
			o.Results[id] = r
		} else if drv.IsNotFinished(err) {
			o.Stuck = append(o.Stuck, id)
		} else {
			o.Errors[id] = err
		}
	}
}

// ---- pre-generated safe primes (served through the verif prime hook) -------------------------

var primesOnce sync.Once
var primePairs [][2]*saferith.Nat
var primeMu sync.Mutex
var primeNext = map[string]int{}

// InstallPrimes makes sample.Paillier return pre-generated safe primes.  The pair is chosen by
// the label of the DRBG in use (one per party and session) and a per-label counter, so that a
// replayed history gets the same primes.
func InstallPrimes() {
	primesOnce.Do(func() {
		b, err := os.ReadFile("/verif/data/primes.json")
		if err != nil {
			return
		}
		var f struct {
			Pairs [][2]string `json:"pairs"`
		}
		if json.Unmarshal(b, &f) != nil {
			return
		}
		for _, pr := range f.Pairs {
			p, _ := new(big.Int).SetString(pr[0], 16)
			q, _ := new(big.Int).SetString(pr[1], 16)
			primePairs = append(primePairs, [2]*saferith.Nat{new(saferith.Nat).SetBig(p, 1024), new(saferith.Nat).SetBig(q, 1024)})
		}
		if len(primePairs) == 0 {
			return
		}
		sample.VerifPaillierSource = func() (*saferith.Nat, *saferith.Nat) {
			// draw the index from the party's own deterministic stream
			var b [4]byte
			drv.ReadCurrent(b[:])
			k := len(primePairs) / 4 // four disjoint classes, one per party position
			i := (drv.CurrentSlot()%4)*k + (int(b[0])<<16|int(b[1])<<8|int(b[2]))%k
			pr := primePairs[i]
			return new(saferith.Nat).SetNat(pr[0]), new(saferith.Nat).SetNat(pr[1])
		}
	})
}

// ---- FROST ------------------------------------------------------------------------------------------

func FrostKeygen(ids []party.ID, t int, taproot bool) *Spec {
	name := "frost-keygen"
	if taproot {
		name = "frost-keygen-taproot"
	}
	return &Spec{Name: name, IDs: ids, SessionID: []byte("sid"), Start: func(id party.ID) protocol.StartFunc {
		if taproot {
			return frost.KeygenTaproot(id, ids, t)
		}
		return frost.Keygen(Group, id, ids, t)
	}}
}

func FrostRefresh(cfg map[party.ID]*frost.Config, ids []party.ID) *Spec {
	return &Spec{Name: "frost-refresh", IDs: ids, SessionID: []byte("sid"), Start: func(id party.ID) protocol.StartFunc {
		return frost.Refresh(cfg[id], ids)
	}}
}

func FrostRefreshTaproot(cfg map[party.ID]*frost.TaprootConfig, ids []party.ID) *Spec {
	return &Spec{Name: "frost-refresh-taproot", IDs: ids, SessionID: []byte("sid"), Start: func(id party.ID) protocol.StartFunc {
		return frost.RefreshTaproot(cfg[id], ids)
	}}
}

func FrostSign(cfg map[party.ID]*frost.Config, signers []party.ID, msg []byte) *Spec {
	return &Spec{Name: "frost-sign", IDs: signers, SessionID: []byte("sid"), Start: func(id party.ID) protocol.StartFunc {
		return frost.Sign(cfg[id], ownFirst(id, signers), msg)
	}}
}

func FrostSignTaproot(cfg map[party.ID]*frost.TaprootConfig, signers []party.ID, msg []byte) *Spec {
	return &Spec{Name: "frost-sign-taproot", IDs: signers, SessionID: []byte("sid"), Start: func(id party.ID) protocol.StartFunc {
		return frost.SignTaproot(cfg[id], ownFirst(id, signers), msg)
	}}
}

// ---- CMP ----------------------------------------------------------------------------------------------

func CMPKeygen(ids []party.ID, t int) *Spec {
	return &Spec{Name: "cmp-keygen", IDs: ids, SessionID: []byte("sid"), Start: func(id party.ID) protocol.StartFunc {
		return cmp.Keygen(Group, id, ids, t, pl())
	}}
}

func CMPRefresh(cfg map[party.ID]*cmp.Config, ids []party.ID) *Spec {
	return &Spec{Name: "cmp-refresh", IDs: ids, SessionID: []byte("sid"), Start: func(id party.ID) protocol.StartFunc {
		return cmp.Refresh(cfg[id], pl())
	}}
}

func CMPSign(cfg map[party.ID]*cmp.Config, signers []party.ID, msg []byte) *Spec {
	return &Spec{Name: "cmp-sign", IDs: signers, SessionID: []byte("sid"), Start: func(id party.ID) protocol.StartFunc {
		return cmp.Sign(cfg[id], ownFirst(id, signers), msg, pl())
	}}
}

func CMPPresign(cfg map[party.ID]*cmp.Config, signers []party.ID) *Spec {
	return &Spec{Name: "cmp-presign", IDs: signers, SessionID: []byte("sid"), Start: func(id party.ID) protocol.StartFunc {
		return cmp.Presign(cfg[id], ownFirst(id, signers), pl())
	}}
}

// CMPPresignFull is presigning immediately followed by signing in one session.
func CMPPresignFull(cfg map[party.ID]*cmp.Config, signers []party.ID, msg []byte) *Spec {
	return &Spec{Name: "cmp-presign-full", IDs: signers, SessionID: []byte("sid"), Start: func(id party.ID) protocol.StartFunc {
		return presign.StartPresign(cfg[id], ownFirst(id, signers), msg, pl())
	}}
}

func CMPPresignOnline(cfg map[party.ID]*cmp.Config, pre map[party.ID]*ecdsa.PreSignature, signers []party.ID, msg []byte) *Spec {
	return &Spec{Name: "cmp-presign-online", IDs: signers, SessionID: []byte("sid"), Start: func(id party.ID) protocol.StartFunc {
		return cmp.PresignOnline(cfg[id], pre[id], msg, pl())
	}}
}

// ---- Doerner --------------------------------------------------------------------------------------------

func DoernerKeygen(recv, send party.ID) *Spec {
	return &Spec{Name: "doerner-keygen", IDs: []party.ID{recv, send}, Two: true, Leader: map[party.ID]bool{recv: true}, SessionID: []byte("sid"),
		Start: func(id party.ID) protocol.StartFunc {
			if id == recv {
				return doerner.Keygen(Group, true, recv, send, pl())
			}
			return doerner.Keygen(Group, false, send, recv, pl())
		}}
}

func DoernerRefresh(cr *doerner.ConfigReceiver, cs *doerner.ConfigSender, recv, send party.ID) *Spec {
	return &Spec{Name: "doerner-refresh", IDs: []party.ID{recv, send}, Two: true, Leader: map[party.ID]bool{recv: true}, SessionID: []byte("sid"),
		Start: func(id party.ID) protocol.StartFunc {
			if id == recv {
				return doerner.RefreshReceiver(cr, recv, send, pl())
			}
			return doerner.RefreshSender(cs, send, recv, pl())
		}}
}

func DoernerSign(cr *doerner.ConfigReceiver, cs *doerner.ConfigSender, recv, send party.ID, hash []byte) *Spec {
	return &Spec{Name: "doerner-sign", IDs: []party.ID{recv, send}, Two: true, Leader: map[party.ID]bool{recv: true, send: true}, SessionID: []byte("sid"),
		Start: func(id party.ID) protocol.StartFunc {
			if id == recv {
				return doerner.SignReceiver(cr, recv, send, hash, pl())
			}
			return doerner.SignSender(cs, send, recv, hash, pl())
		}}
}
