// Package hist is the shared machinery of the history checks C08 and C14: one type for the key
// material of all parties of any of the four protocol families (FROST, FROST-Taproot, CMP,
// Doerner) with the operations a history is made of — refresh, serialize+restore, sign, BIP-32
// child derivation — each performed with the repository's own API through the deterministic
// session driver, and protocol-independent read-outs (public key, secret shares, chain keys,
// consistency conditions) for the oracles.
//
// Harness rule (the library's FROST refresh writes into the configuration objects it is given):
// material of an earlier epoch is only ever kept as a serialized snapshot and compared through
// objects freshly restored from it; a live object is never assumed to still hold what it held.
package hist

import (
	"bytes"
	"fmt"
	"math/big"
	"sort"
	"strings"

	"github.com/fxamacker/cbor/v2"
	"github.com/taurusgroup/multi-party-sig/internal/zzverif/kmat"
	"github.com/taurusgroup/multi-party-sig/internal/zzverif/oracle"
	"github.com/taurusgroup/multi-party-sig/internal/zzverif/ref"
	"github.com/taurusgroup/multi-party-sig/internal/zzverif/sess"
	"github.com/taurusgroup/multi-party-sig/internal/zzverif/vkit"
	"github.com/taurusgroup/multi-party-sig/pkg/party"
	"github.com/taurusgroup/multi-party-sig/protocols/cmp"
	"github.com/taurusgroup/multi-party-sig/protocols/doerner"
	"github.com/taurusgroup/multi-party-sig/protocols/frost"
)

const (
	Frost   = "frost"
	Taproot = "frost-taproot"
	CMP     = "cmp"
	Doerner = "doerner"
)

// Scenario names a protocol family and its parameters.
type Scenario struct {
	Proto string `json:"proto"`
	N     int    `json:"n"`
	T     int    `json:"t"`
}

func (s Scenario) String() string { return fmt.Sprintf("%s/n%d/t%d", s.Proto, s.N, s.T) }

// Mat is the key material of all parties at one moment (live objects as the library returned them).
type Mat struct {
	Sc    Scenario
	IDs   []party.ID
	Frost map[party.ID]*frost.Config
	Tap   map[party.ID]*frost.TaprootConfig
	CMP   map[party.ID]*cmp.Config
	DR    *doerner.ConfigReceiver // party "a"
	DS    *doerner.ConfigSender   // party "b"
}

// Keygen runs the repository's key generation (fresh objects on every call, same values for a fixed seed).
func Keygen(sc Scenario) (*Mat, error) {
	m := &Mat{Sc: sc, IDs: append([]party.ID{}, kmat.IDs[:sc.N]...)}
	var err error
	switch sc.Proto {
	case Frost:
		m.Frost, err = kmat.Frost(sc.N, sc.T)
	case Taproot:
		m.Tap, err = kmat.Taproot(sc.N, sc.T)
	case CMP:
		m.CMP, err = kmat.CMP(sc.N, sc.T)
	case Doerner:
		var k *kmat.DoernerKeys
		if k, err = kmat.Doerner(); err == nil {
			m.DR, m.DS = k.R, k.S
		}
	default:
		err = fmt.Errorf("unknown protocol %q", sc.Proto)
	}
	if err != nil {
		return nil, err
	}
	return m, nil
}

func (m *Mat) shell() *Mat { return &Mat{Sc: m.Sc, IDs: m.IDs} }

// FromResults builds the material from the results of a key generation / refresh session.
func (m *Mat) FromResults(res map[party.ID]interface{}) (*Mat, error) {
	out := m.shell()
	switch m.Sc.Proto {
	case Frost:
		out.Frost = map[party.ID]*frost.Config{}
	case Taproot:
		out.Tap = map[party.ID]*frost.TaprootConfig{}
	case CMP:
		out.CMP = map[party.ID]*cmp.Config{}
	}
	for _, id := range m.IDs {
		r := res[id]
		ok := false
		switch m.Sc.Proto {
		case Frost:
			out.Frost[id], ok = r.(*frost.Config)
		case Taproot:
			out.Tap[id], ok = r.(*frost.TaprootConfig)
		case CMP:
			out.CMP[id], ok = r.(*cmp.Config)
		case Doerner:
			if id == "a" {
				out.DR, ok = r.(*doerner.ConfigReceiver)
			} else {
				out.DS, ok = r.(*doerner.ConfigSender)
			}
		}
		if !ok {
			return nil, fmt.Errorf("result of %s has type %T", id, r)
		}
	}
	return out, nil
}

// ---- read-outs ----------------------------------------------------------------------------------

// Facts is what the oracles look at: per party, everything by value.
type Facts struct {
	IDs    []string
	Pub    map[string]ref.Pt
	Secret map[string]*big.Int
	Chain  map[string][]byte
	Views  map[string]*oracle.View // nil for Doerner
	XOnly  map[string][]byte       // Taproot: the stored 32-byte key
}

func (m *Mat) Facts() (*Facts, error) {
	f := &Facts{Pub: map[string]ref.Pt{}, Secret: map[string]*big.Int{}, Chain: map[string][]byte{}, XOnly: map[string][]byte{}}
	for _, id := range m.IDs {
		f.IDs = append(f.IDs, string(id))
	}
	if m.Sc.Proto == Doerner {
		if m.DR == nil || m.DS == nil || m.DR.Public == nil || m.DS.Public == nil || m.DR.SecretShare == nil || m.DS.SecretShare == nil {
			return nil, fmt.Errorf("nil fields in Doerner material")
		}
		pr, err := oracle.Pt(m.DR.Public)
		if err != nil {
			return nil, err
		}
		ps, err := oracle.Pt(m.DS.Public)
		if err != nil {
			return nil, err
		}
		f.Pub["a"], f.Pub["b"] = pr, ps
		f.Secret["a"], f.Secret["b"] = oracle.Sc(m.DR.SecretShare), oracle.Sc(m.DS.SecretShare)
		f.Chain["a"], f.Chain["b"] = append([]byte{}, m.DR.ChainKey...), append([]byte{}, m.DS.ChainKey...)
		return f, nil
	}
	f.Views = map[string]*oracle.View{}
	for _, id := range m.IDs {
		var r interface{}
		switch m.Sc.Proto {
		case Frost:
			r = m.Frost[id]
		case Taproot:
			r = m.Tap[id]
			if m.Tap[id] != nil {
				f.XOnly[string(id)] = append([]byte{}, m.Tap[id].PublicKey...)
			}
		case CMP:
			r = m.CMP[id]
		}
		var v *oracle.View
		var err error
		if p, msg, frame := vkit.Try(func() { v, err = oracle.ViewOf(r) }); p {
			return nil, fmt.Errorf("reading the material of %s panics: %s in %s", id, msg, frame)
		}
		if err != nil {
			return nil, fmt.Errorf("material of %s: %v", id, err)
		}
		f.Views[string(id)] = v
		f.Pub[string(id)] = v.Public
		f.Secret[string(id)] = v.Secret
		f.Chain[string(id)] = append([]byte{}, v.ChainKey...)
	}
	return f, nil
}

// Consistency evaluates the key-generation consistency conditions (C02's) on the material.
func (m *Mat) Consistency() []error {
	if m.Sc.Proto == Doerner {
		return oracle.CheckDoerner(m.DR, m.DS)
	}
	f, err := m.Facts()
	if err != nil {
		return []error{fmt.Errorf("clause readable: %v", err)}
	}
	return oracle.CheckSharing(f.Views, m.Sc.T)
}

// Clause extracts the clause name from an error of oracle.CheckSharing / CheckDoerner.
func Clause(e error) string {
	s := e.Error()
	if strings.HasPrefix(s, "clause ") {
		s = s[len("clause "):]
		if i := strings.Index(s, ":"); i > 0 {
			return s[:i]
		}
	}
	return "other"
}

// Diff lists what differs between two read-outs of the same parties (by value).
func Diff(a, b *Facts) []string {
	var out []string
	for _, id := range a.IDs {
		if a.Secret[id].Cmp(b.Secret[id]) != 0 {
			out = append(out, "secret-share")
		}
		if !a.Pub[id].Equal(b.Pub[id]) || !bytes.Equal(a.XOnly[id], b.XOnly[id]) {
			out = append(out, "public-key")
		}
		if !bytes.Equal(a.Chain[id], b.Chain[id]) {
			out = append(out, "chain-key")
		}
		if a.Views != nil {
			va, vb := a.Views[id], b.Views[id]
			if va.Threshold != vb.Threshold || va.ID != vb.ID {
				out = append(out, "id-threshold")
			}
			if va.Aux != vb.Aux {
				out = append(out, "auxiliary-data")
			}
			same := len(va.Shares) == len(vb.Shares)
			for k, p := range va.Shares {
				if q, ok := vb.Shares[k]; !ok || !p.Equal(q) {
					same = false
				}
			}
			if !same {
				out = append(out, "public-share-table")
			}
		}
	}
	sort.Strings(out)
	var ded []string
	for i, s := range out {
		if i == 0 || out[i-1] != s {
			ded = append(ded, s)
		}
	}
	return ded
}

// Combine reconstructs the secret a set of shares determines: Lagrange interpolation at the
// parties' identifiers (threshold protocols), the plain sum (Doerner's additive 2-of-2).
func Combine(proto string, ids []string, shares []*big.Int) *big.Int {
	if proto == Doerner {
		s := new(big.Int)
		for _, y := range shares {
			s.Add(s, y)
		}
		return s.Mod(s, ref.N)
	}
	xs := make([]*big.Int, len(ids))
	for i, id := range ids {
		xs[i] = ref.IDScalar(id)
	}
	return ref.Reconstruct(xs, shares)
}

// ---- snapshots ----------------------------------------------------------------------------------

// Snap is the serialized material of all parties (the library's own encodings).
type Snap struct {
	Sc    Scenario
	Bytes map[string][]byte
}

func (m *Mat) Snapshot() (*Snap, error) {
	s := &Snap{Sc: m.Sc, Bytes: map[string][]byte{}}
	var err error
	for _, id := range m.IDs {
		var b []byte
		switch m.Sc.Proto {
		case Frost:
			b, err = cbor.Marshal(m.Frost[id])
		case Taproot:
			b, err = cbor.Marshal(m.Tap[id])
		case CMP:
			b, err = m.CMP[id].MarshalBinary()
		case Doerner:
			if id == "a" {
				b, err = cbor.Marshal(m.DR)
			} else {
				b, err = cbor.Marshal(m.DS)
			}
		}
		if err != nil {
			return nil, fmt.Errorf("serializing the material of %s: %v", id, err)
		}
		s.Bytes[string(id)] = b
	}
	return s, nil
}

// Restore decodes the snapshot into fresh objects.
func (s *Snap) Restore() (*Mat, error) {
	m := &Mat{Sc: s.Sc, IDs: append([]party.ID{}, kmat.IDs[:s.Sc.N]...)}
	switch s.Sc.Proto {
	case Frost:
		m.Frost = map[party.ID]*frost.Config{}
	case Taproot:
		m.Tap = map[party.ID]*frost.TaprootConfig{}
	case CMP:
		m.CMP = map[party.ID]*cmp.Config{}
	}
	for _, id := range m.IDs {
		b := s.Bytes[string(id)]
		var err error
		switch s.Sc.Proto {
		case Frost:
			c := frost.EmptyConfig(sess.Group)
			err = cbor.Unmarshal(b, c)
			m.Frost[id] = c
		case Taproot:
			c := &frost.TaprootConfig{}
			err = cbor.Unmarshal(b, c)
			m.Tap[id] = c
		case CMP:
			c := cmp.EmptyConfig(sess.Group)
			err = c.UnmarshalBinary(b)
			m.CMP[id] = c
		case Doerner:
			if id == "a" {
				c := doerner.EmptyConfigReceiver(sess.Group)
				err = cbor.Unmarshal(b, c)
				m.DR = c
			} else {
				c := doerner.EmptyConfigSender(sess.Group)
				err = cbor.Unmarshal(b, c)
				m.DS = c
			}
		}
		if err != nil {
			return nil, fmt.Errorf("restoring the material of %s: %v", id, err)
		}
	}
	return m, nil
}

// Fresh is Snapshot followed by Restore.
func (m *Mat) Fresh() (*Mat, error) {
	s, err := m.Snapshot()
	if err != nil {
		return nil, err
	}
	return s.Restore()
}

// ---- operations ---------------------------------------------------------------------------------

// RefreshSpec describes a refresh session run by all parties on the objects of m.
func (m *Mat) RefreshSpec() *sess.Spec {
	switch m.Sc.Proto {
	case Frost:
		return sess.FrostRefresh(m.Frost, m.IDs)
	case Taproot:
		return sess.FrostRefreshTaproot(m.Tap, m.IDs)
	case CMP:
		return sess.CMPRefresh(m.CMP, m.IDs)
	}
	return sess.DoernerRefresh(m.DR, m.DS, "a", "b")
}

// SignSpec describes a signing session of signers on message hash msg; a party listed in from
// takes its configuration object from that material instead of m.
func (m *Mat) SignSpec(signers []party.ID, msg []byte, from map[party.ID]*Mat) *sess.Spec {
	src := func(id party.ID) *Mat {
		if o, ok := from[id]; ok {
			return o
		}
		return m
	}
	switch m.Sc.Proto {
	case Frost:
		cfg := map[party.ID]*frost.Config{}
		for _, id := range signers {
			cfg[id] = src(id).Frost[id]
		}
		return sess.FrostSign(cfg, signers, msg)
	case Taproot:
		cfg := map[party.ID]*frost.TaprootConfig{}
		for _, id := range signers {
			cfg[id] = src(id).Tap[id]
		}
		return sess.FrostSignTaproot(cfg, signers, msg)
	case CMP:
		cfg := map[party.ID]*cmp.Config{}
		for _, id := range signers {
			cfg[id] = src(id).CMP[id]
		}
		return sess.CMPSign(cfg, signers, msg)
	}
	return sess.DoernerSign(src("a").DR, src("b").DS, "a", "b", msg)
}

// Derived is the outcome of every party deriving the BIP-32 child i from its own material.
type Derived struct {
	Mat    *Mat             // nil unless every party obtained a child
	Errs   map[string]error // parties whose call returned an error
	Panics map[string]string
	Frame  string
}

func (d *Derived) Refused() bool { return d.Mat == nil }

func (d *Derived) Describe() string {
	var parts []string
	for id, e := range d.Errs {
		parts = append(parts, fmt.Sprintf("%s: error %q", id, e))
	}
	for id, p := range d.Panics {
		parts = append(parts, fmt.Sprintf("%s: panic %q in %s", id, p, d.Frame))
	}
	sort.Strings(parts)
	return strings.Join(parts, "; ")
}

// Derive calls the API's non-hardened BIP-32 derivation on every party's material.
func (m *Mat) Derive(i uint32) *Derived {
	d := &Derived{Errs: map[string]error{}, Panics: map[string]string{}}
	out := m.shell()
	switch m.Sc.Proto {
	case Frost:
		out.Frost = map[party.ID]*frost.Config{}
	case Taproot:
		out.Tap = map[party.ID]*frost.TaprootConfig{}
	case CMP:
		out.CMP = map[party.ID]*cmp.Config{}
	}
	for _, id := range m.IDs {
		id := id
		var err error
		got := false
		p, msg, frame := vkit.Try(func() {
			switch m.Sc.Proto {
			case Frost:
				var c *frost.Config
				if c, err = m.Frost[id].DeriveChild(i); err == nil && c != nil {
					out.Frost[id], got = c, true
				}
			case Taproot:
				var c *frost.TaprootConfig
				if c, err = m.Tap[id].DeriveChild(i); err == nil && c != nil {
					out.Tap[id], got = c, true
				}
			case CMP:
				var c *cmp.Config
				if c, err = m.CMP[id].DeriveBIP32(i); err == nil && c != nil {
					out.CMP[id], got = c, true
				}
			case Doerner:
				if id == "a" {
					var c *doerner.ConfigReceiver
					if c, err = m.DR.DeriveBIP32(i); err == nil && c != nil {
						out.DR, got = c, true
					}
				} else {
					var c *doerner.ConfigSender
					if c, err = m.DS.DeriveBIP32(i); err == nil && c != nil {
						out.DS, got = c, true
					}
				}
			}
		})
		switch {
		case p:
			d.Panics[string(id)] = msg
			d.Frame = frame
		case err != nil:
			d.Errs[string(id)] = err
		case !got:
			d.Errs[string(id)] = fmt.Errorf("nil child without an error")
		}
	}
	if len(d.Errs) == 0 && len(d.Panics) == 0 {
		d.Mat = out
	}
	return d
}

// ---- sessions -----------------------------------------------------------------------------------

// Describe summarises how a session ended.
func Describe(o *sess.Outcome) string {
	var parts []string
	ids := []string{}
	for id := range o.Results {
		ids = append(ids, string(id))
	}
	sort.Strings(ids)
	parts = append(parts, fmt.Sprintf("results=%v", ids))
	es := []string{}
	for id, e := range o.Errors {
		es = append(es, fmt.Sprintf("%s:%v", id, e))
	}
	sort.Strings(es)
	if len(es) > 0 {
		parts = append(parts, "errors={"+strings.Join(es, "; ")+"}")
	}
	ss := []string{}
	for id, e := range o.StartErr {
		ss = append(ss, fmt.Sprintf("%s:%v", id, e))
	}
	sort.Strings(ss)
	if len(ss) > 0 {
		parts = append(parts, "start-errors={"+strings.Join(ss, "; ")+"}")
	}
	if o.Panic != "" {
		parts = append(parts, "panic="+o.Panic)
	}
	if o.Hung != "" {
		parts = append(parts, "hung="+o.Hung)
	}
	if len(o.Stuck) > 0 {
		parts = append(parts, fmt.Sprintf("still-running=%v", o.Stuck))
	}
	return strings.Join(parts, " ")
}

// CheckSigned judges a signing session that must succeed: every signer holds a result, all
// results are the same signature, and it verifies under pub with the reference verifier.
func CheckSigned(o *sess.Outcome, signers []party.ID, pub ref.Pt, msg []byte) error {
	if o.Panic != "" {
		return fmt.Errorf("panic: %s", o.Panic)
	}
	if !o.AllDone(signers) {
		return fmt.Errorf("session does not complete: %s", Describe(o))
	}
	var first []byte
	for i, id := range signers {
		if err := oracle.CheckSignature(o.Results[id], pub, msg); err != nil {
			return fmt.Errorf("signature held by %s: %v", id, err)
		}
		b, err := oracle.SigBytes(o.Results[id])
		if err != nil {
			return fmt.Errorf("signature held by %s: %v", id, err)
		}
		if i == 0 {
			first = b
		} else if !bytes.Equal(first, b) {
			return fmt.Errorf("%s and %s hold different signatures", signers[0], id)
		}
	}
	return nil
}

// Subsets returns all k-subsets of ids in lexicographic order.
func Subsets(ids []party.ID, k int) [][]party.ID {
	var out [][]party.ID
	var rec func(start int, cur []party.ID)
	rec = func(start int, cur []party.ID) {
		if len(cur) == k {
			out = append(out, append([]party.ID{}, cur...))
			return
		}
		for i := start; i < len(ids); i++ {
			rec(i+1, append(cur, ids[i]))
		}
	}
	rec(0, nil)
	return out
}

// Msg is a 32-byte message hash determined by a label.
func Msg(label string) []byte {
	out := make([]byte, 32)
	copy(out, []byte(label))
	for i := len(label); i < 32; i++ {
		out[i] = byte(0x30 + i)
	}
	return out
}

// Hex prints a point (compressed), the identity by name.
func Hex(p ref.Pt) string {
	if p.Inf || p.X == nil || p.Y == nil {
		return "identity"
	}
	return fmt.Sprintf("%x", p.Compressed())
}
