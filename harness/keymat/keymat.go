// Package keymat is shared by the C01 and C02 checks: the participant-identifier lattice,
// running a session in order or per-batch reversed, classifying a session that does not
// complete, and a per-process cache of key material (fresh / refreshed / BIP-32 derived) of
// every real protocol, all built with sess.Run on the repository's own start functions.
package keymat

import (
	"crypto/sha256"
	"fmt"
	"math/big"
	"regexp"
	"sort"
	"strings"

	"github.com/taurusgroup/multi-party-sig/internal/zzverif/drv"
	"github.com/taurusgroup/multi-party-sig/internal/zzverif/oracle"
	"github.com/taurusgroup/multi-party-sig/internal/zzverif/ref"
	"github.com/taurusgroup/multi-party-sig/internal/zzverif/sess"
	"github.com/taurusgroup/multi-party-sig/pkg/ecdsa"
	"github.com/taurusgroup/multi-party-sig/pkg/party"
	"github.com/taurusgroup/multi-party-sig/protocols/cmp"
	"github.com/taurusgroup/multi-party-sig/protocols/doerner"
	"github.com/taurusgroup/multi-party-sig/protocols/frost"
)

// ---- identifier lattice ---------------------------------------------------------------------

// IDSetNames lists the identifier shapes of the lattice.
var IDSetNames = []string{"short", "ascii32", "utf8", "long", "lastbyte", "mixedlen", "binary32"}

const MaxN = 6

// IDSet returns the first n identifiers of the named shape.
//
//	short     "a","b",…                                   one ASCII byte
//	ascii32   32 printable ASCII bytes
//	utf8      non-ASCII UTF-8 strings of different byte lengths
//	long      33…128 bytes (longer than a scalar): the evaluation point is the value mod q
//	lastbyte  a common 20-byte prefix, ids differ only in the last byte
//	mixedlen  different lengths, string order differs from numeric order ("aa" < "b" but 0x6161 > 0x62)
//	binary32  arbitrary 32 bytes (not valid UTF-8), one of them 32 x 0xFF (a value >= q)
func IDSet(name string, n int) []party.ID {
	var all []party.ID
	switch name {
	case "short":
		all = []party.ID{"a", "b", "c", "d", "e", "f"}
	case "ascii32":
		for i := 0; i < MaxN; i++ {
			h := sha256.Sum256([]byte(fmt.Sprintf("verif-ascii-id|%d", i)))
			all = append(all, party.ID(fmt.Sprintf("%x", h[:16])))
		}
	case "utf8":
		all = []party.ID{"ä", "ж", "日本", "🔑", "ñandú", "Ωmega"}
	case "long":
		lens := []int{33, 40, 64, 65, 100, 128}
		for i := 0; i < MaxN; i++ {
			base := "long-identifier-"
			all = append(all, party.ID(base+strings.Repeat(string(rune('A'+i)), lens[i]-len(base))))
		}
	case "lastbyte":
		for i := 0; i < MaxN; i++ {
			all = append(all, party.ID("common-prefix-party-"+string(rune('0'+i))))
		}
	case "mixedlen":
		all = []party.ID{"b", "aa", "c", "ab", "ca", "a"}
	case "binary32":
		for i := 0; i < MaxN; i++ {
			h := sha256.Sum256([]byte(fmt.Sprintf("verif-binary-id|%d", i)))
			h[0] |= 0x80
			if i == 1 {
				for k := range h {
					h[k] = 0xFF
				}
			}
			all = append(all, party.ID(h[:]))
		}
	default:
		panic("unknown id set " + name)
	}
	if n > len(all) {
		panic("id set too small")
	}
	return append([]party.ID{}, all[:n]...)
}

// CheckIDs verifies the precondition of the properties' quantifier: scalar images
// (big-endian bytes mod q, reference arithmetic) distinct and non-zero.
func CheckIDs(ids []party.ID) error {
	seen := map[string]party.ID{}
	for _, id := range ids {
		x := ref.IDScalar(string(id))
		if x.Sign() == 0 {
			return fmt.Errorf("id %q has scalar image 0", id)
		}
		if o, ok := seen[x.String()]; ok {
			return fmt.Errorf("ids %q and %q have the same scalar image", o, id)
		}
		seen[x.String()] = id
	}
	return nil
}

// Quote renders identifiers unambiguously.
func Quote(ids []party.ID) string {
	s := make([]string, len(ids))
	for i, id := range ids {
		s[i] = fmt.Sprintf("%q", string(id))
	}
	return "[" + strings.Join(s, " ") + "]"
}

// Subsets returns every index subset of {0..n-1} with at least min elements, ordered by size and then lexicographically.
func Subsets(n, min int) [][]int {
	var out [][]int
	for k := min; k <= n; k++ {
		var rec func(start int, cur []int)
		rec = func(start int, cur []int) {
			if len(cur) == k {
				out = append(out, append([]int{}, cur...))
				return
			}
			for i := start; i < n; i++ {
				rec(i+1, append(cur, i))
			}
		}
		rec(0, nil)
	}
	return out
}

// Binom is n choose k.
func Binom(n, k int) int64 {
	if k < 0 || k > n {
		return 0
	}
	r := big.NewInt(0).Binomial(int64(n), int64(k))
	return r.Int64()
}

// ---- running sessions -------------------------------------------------------------------------

// Run executes a session to quiescence: in order (FIFO), or with every batch of pending
// deliveries made in reverse order ("per-round reversed": the messages that are pending when a
// batch starts are delivered last-to-first; what they trigger forms the next batch).
func Run(s *sess.Spec, seed int64, label string, reversed bool) *sess.Outcome {
	if !reversed {
		return sess.Run(s, seed, label)
	}
	net, startErr := sess.Build(s, seed, label)
	o := &sess.Outcome{Net: net, Results: map[party.ID]interface{}{}, Errors: map[party.ID]error{}, StartErr: startErr}
	if len(startErr) == 0 {
		net.Flush()
		for len(net.Queue) > 0 && net.Steps < 100000 {
			for i := len(net.Queue) - 1; i >= 0; i-- {
				net.DeliverAt(i)
			}
		}
	}
	sess.Collect(o)
	return o
}

// Fail describes why an all-honest session did not complete at every party.
type Fail struct {
	Class  string // stable: goes into the violation signature
	Detail string
}

var reCulprits = regexp.MustCompile(`^culprits:? \[[^\]]*\]: `)

// ErrClass makes an error text independent of the concrete identifiers.
func ErrClass(msg string, ids []party.ID) string {
	msg = reCulprits.ReplaceAllString(msg, "")
	sorted := append([]party.ID{}, ids...)
	sort.Slice(sorted, func(i, j int) bool { return len(sorted[i]) > len(sorted[j]) })
	isWord := func(b byte) bool {
		return b == '_' || (b >= '0' && b <= '9') || (b >= 'a' && b <= 'z') || (b >= 'A' && b <= 'Z') || b >= 0x80
	}
	for _, id := range sorted {
		s := string(id)
		var out strings.Builder
		for i := 0; i < len(msg); {
			if strings.HasPrefix(msg[i:], s) && (i == 0 || !isWord(msg[i-1])) && (i+len(s) == len(msg) || !isWord(msg[i+len(s)])) {
				out.WriteString("<id>")
				i += len(s)
				continue
			}
			out.WriteByte(msg[i])
			i++
		}
		msg = out.String()
	}
	msg = strings.Join(strings.Fields(msg), " ")
	if len(msg) > 100 {
		msg = msg[:100]
	}
	return msg
}

// Completion judges "every party of ids finished with a result" on an outcome; nil = yes.
func Completion(o *sess.Outcome, ids []party.ID) *Fail {
	if o.Panic != "" {
		frame := "?"
		if id, _, f := o.Net.AnyPanic(); id != "" {
			frame = f
		}
		return &Fail{Class: "panic:" + frame, Detail: "panic: " + o.Panic}
	}
	if o.Hung != "" {
		p := o.Net.Parties[party.ID(o.Hung)]
		where := "a handler call"
		cls := "handler-call-never-returns"
		if p != nil && p.H == nil {
			where = "the handler constructor"
			cls = "constructor-never-returns"
		}
		return &Fail{Class: cls, Detail: fmt.Sprintf("%s of party %q did not return within %v; %s", where, o.Hung, drv.CallTimeout, blockedWhere(p))}
	}
	if len(o.StartErr) > 0 {
		var keys []string
		for id := range o.StartErr {
			keys = append(keys, string(id))
		}
		sort.Strings(keys)
		e := o.StartErr[party.ID(keys[0])]
		return &Fail{Class: "start-error:" + ErrClass(e.Error(), ids), Detail: fmt.Sprintf("constructor of party %q refused valid parameters: %v", keys[0], e)}
	}
	for _, id := range ids {
		if e := o.Errors[id]; e != nil {
			return &Fail{Class: "error-result:" + ErrClass(e.Error(), ids), Detail: fmt.Sprintf("party %q ended with error %q", id, e.Error())}
		}
	}
	if len(o.Stuck) > 0 {
		return &Fail{Class: "stuck-with-empty-network", Detail: fmt.Sprintf("every message was delivered (%d deliveries) but parties %s have not finished", o.Net.Steps, Quote(o.Stuck))}
	}
	for _, id := range ids {
		if o.Results[id] == nil {
			return &Fail{Class: "no-result", Detail: fmt.Sprintf("party %q has neither result nor error", id)}
		}
	}
	return nil
}

// blockedWhere extracts, from the goroutine dump taken when a call timed out, the state and the
// repository frames of the goroutine that runs the handler constructor.
func blockedWhere(p *drv.Party) string {
	if p == nil || p.Hung == "" {
		return ""
	}
	for _, g := range strings.Split(p.Hung, "\n\n") {
		if !strings.Contains(g, "protocol.NewMultiHandler") && !strings.Contains(g, "protocol.NewTwoPartyHandler") && !strings.Contains(g, ").Accept(") {
			continue
		}
		lines := strings.Split(g, "\n")
		var fr []string
		for _, l := range lines[1:] {
			if strings.HasPrefix(l, "github.com/taurusgroup/multi-party-sig/") && !strings.Contains(l, "/zzverif/") {
				l = strings.TrimPrefix(l, "github.com/taurusgroup/multi-party-sig/")
				if i := strings.LastIndex(l, "("); i > 0 {
					l = l[:i]
				}
				fr = append(fr, l)
			}
		}
		return fmt.Sprintf("blocked goroutine: %s in %s", strings.TrimSpace(lines[0]), strings.Join(fr, " <- "))
	}
	return "blocked goroutine not found in the dump"
}

// ---- key material -------------------------------------------------------------------------------

// Set is the key material of all shareholders of one key.
type Set struct {
	Proto    string // frost | taproot | cmp | doerner
	IDSet    string
	IDs      []party.ID
	T        int
	Material string // fresh | refreshed | derived
	Frost    map[party.ID]*frost.Config
	Taproot  map[party.ID]*frost.TaprootConfig
	CMP      map[party.ID]*cmp.Config
	DR       *doerner.ConfigReceiver
	DS       *doerner.ConfigSender
	// Pub is the public key signatures must verify under: the group key reported by key
	// generation (first party's view) for fresh and refreshed material, its reference BIP-32
	// child (ref.CKDpub) for derived material.
	Pub   ref.Pt
	print string
}

func (s *Set) Name() string {
	return fmt.Sprintf("%s|%s|n%d|t%d", s.Proto, s.IDSet, len(s.IDs), s.T)
}

// KeygenSpec returns the key generation session for a protocol.
func KeygenSpec(proto string, ids []party.ID, t int) *sess.Spec {
	switch proto {
	case "frost":
		return sess.FrostKeygen(ids, t, false)
	case "taproot":
		return sess.FrostKeygen(ids, t, true)
	case "cmp":
		return sess.CMPKeygen(ids, t)
	case "doerner":
		return sess.DoernerKeygen(ids[0], ids[1])
	}
	panic("unknown protocol " + proto)
}

// fill stores the results of a key generation / refresh outcome in the set.
func (s *Set) fill(o *sess.Outcome) error {
	bad := func(id party.ID) error {
		return fmt.Errorf("result of %q has unexpected type %T", id, o.Results[id])
	}
	switch s.Proto {
	case "frost":
		s.Frost = map[party.ID]*frost.Config{}
		for _, id := range s.IDs {
			c, ok := o.Results[id].(*frost.Config)
			if !ok {
				return bad(id)
			}
			s.Frost[id] = c
		}
	case "taproot":
		s.Taproot = map[party.ID]*frost.TaprootConfig{}
		for _, id := range s.IDs {
			c, ok := o.Results[id].(*frost.TaprootConfig)
			if !ok {
				return bad(id)
			}
			s.Taproot[id] = c
		}
	case "cmp":
		s.CMP = map[party.ID]*cmp.Config{}
		for _, id := range s.IDs {
			c, ok := o.Results[id].(*cmp.Config)
			if !ok {
				return bad(id)
			}
			s.CMP[id] = c
		}
	case "doerner":
		var ok1, ok2 bool
		s.DR, ok1 = o.Results[s.IDs[0]].(*doerner.ConfigReceiver)
		s.DS, ok2 = o.Results[s.IDs[1]].(*doerner.ConfigSender)
		if !ok1 {
			return bad(s.IDs[0])
		}
		if !ok2 {
			return bad(s.IDs[1])
		}
	}
	return nil
}

// reportedPub is the group key as the first shareholder's material reports it.
func (s *Set) reportedPub() (ref.Pt, error) {
	switch s.Proto {
	case "doerner":
		return oracle.Pt(s.DR.Public)
	case "frost":
		v, err := oracle.ViewOf(s.Frost[s.IDs[0]])
		if err != nil {
			return ref.Pt{}, err
		}
		return v.Public, nil
	case "taproot":
		v, err := oracle.ViewOf(s.Taproot[s.IDs[0]])
		if err != nil {
			return ref.Pt{}, err
		}
		return v.Public, nil
	default:
		v, err := oracle.ViewOf(s.CMP[s.IDs[0]])
		if err != nil {
			return ref.Pt{}, err
		}
		return v.Public, nil
	}
}

// Generate runs key generation (in order) and returns the fresh key material.
func Generate(proto, idset string, n, t int, seed int64) (*Set, *sess.Outcome, *Fail) {
	ids := IDSet(idset, n)
	s := &Set{Proto: proto, IDSet: idset, IDs: ids, T: t, Material: "fresh"}
	o := sess.Run(KeygenSpec(proto, ids, t), seed, "keymat|"+s.Name())
	if f := Completion(o, ids); f != nil {
		return nil, o, f
	}
	if err := s.fill(o); err != nil {
		return nil, o, &Fail{Class: "bad-material", Detail: err.Error()}
	}
	pub, err := s.reportedPub()
	if err != nil {
		return nil, o, &Fail{Class: "bad-material", Detail: err.Error()}
	}
	s.Pub = pub
	return s, o, nil
}

// Refreshed runs the protocol's refresh over all shareholders; the expected public key stays
// the one fixed at key generation.
func (s *Set) Refreshed(seed int64) (*Set, *Fail) {
	var sp *sess.Spec
	switch s.Proto {
	case "frost":
		sp = sess.FrostRefresh(s.Frost, s.IDs)
	case "taproot":
		sp = sess.FrostRefreshTaproot(s.Taproot, s.IDs)
	case "cmp":
		sp = sess.CMPRefresh(s.CMP, s.IDs)
	case "doerner":
		sp = sess.DoernerRefresh(s.DR, s.DS, s.IDs[0], s.IDs[1])
	}
	o := sess.Run(sp, seed, "keymat-refresh|"+s.Name())
	if f := Completion(o, s.IDs); f != nil {
		return nil, f
	}
	r := &Set{Proto: s.Proto, IDSet: s.IDSet, IDs: s.IDs, T: s.T, Material: "refreshed", Pub: s.Pub}
	if err := r.fill(o); err != nil {
		return nil, &Fail{Class: "bad-material", Detail: err.Error()}
	}
	return r, nil
}

// Derived applies the library's BIP-32 derivation to every shareholder's material; the
// expected public key is computed by the reference CKDpub from the parent key and the chain
// key held by the first shareholder (Taproot: parent with even Y, child normalised to even Y).
func (s *Set) Derived(index uint32) (*Set, error) {
	d := &Set{Proto: s.Proto, IDSet: s.IDSet, IDs: s.IDs, T: s.T, Material: "derived"}
	var chain []byte
	switch s.Proto {
	case "frost":
		d.Frost = map[party.ID]*frost.Config{}
		for _, id := range s.IDs {
			c, err := s.Frost[id].DeriveChild(index)
			if err != nil {
				return nil, fmt.Errorf("DeriveChild(%d) at %q: %v", index, id, err)
			}
			d.Frost[id] = c
		}
		chain = s.Frost[s.IDs[0]].ChainKey
	case "taproot":
		d.Taproot = map[party.ID]*frost.TaprootConfig{}
		for _, id := range s.IDs {
			c, err := s.Taproot[id].DeriveChild(index)
			if err != nil {
				return nil, fmt.Errorf("DeriveChild(%d) at %q: %v", index, id, err)
			}
			d.Taproot[id] = c
		}
		chain = s.Taproot[s.IDs[0]].ChainKey
	case "cmp":
		d.CMP = map[party.ID]*cmp.Config{}
		for _, id := range s.IDs {
			c, err := s.CMP[id].DeriveBIP32(index)
			if err != nil {
				return nil, fmt.Errorf("DeriveBIP32(%d) at %q: %v", index, id, err)
			}
			d.CMP[id] = c
		}
		chain = s.CMP[s.IDs[0]].ChainKey
	case "doerner":
		var err error
		if d.DR, err = s.DR.DeriveBIP32(index); err != nil {
			return nil, fmt.Errorf("receiver DeriveBIP32(%d): %v", index, err)
		}
		if d.DS, err = s.DS.DeriveBIP32(index); err != nil {
			return nil, fmt.Errorf("sender DeriveBIP32(%d): %v", index, err)
		}
		chain = s.DR.ChainKey
	}
	child, _, err := ref.CKDpub(s.Pub, chain, index)
	if err != nil {
		return nil, fmt.Errorf("reference CKDpub: %v", err)
	}
	if s.Proto == "taproot" {
		if child, err = ref.LiftX(child.X); err != nil {
			return nil, err
		}
	}
	d.Pub = child
	return d, nil
}

// SignSpec builds a signing session of the given variant for a signer subset.
//
//	frost, taproot, doerner: variant "sign"
//	cmp: "sign", "presign" (offline, msg ignored), "presign-online" (needs pre), "presign-full"
func (s *Set) SignSpec(variant string, signers []party.ID, msg []byte, pre map[party.ID]*ecdsa.PreSignature) *sess.Spec {
	switch s.Proto {
	case "frost":
		return sess.FrostSign(s.Frost, signers, msg)
	case "taproot":
		return sess.FrostSignTaproot(s.Taproot, signers, msg)
	case "doerner":
		return sess.DoernerSign(s.DR, s.DS, s.IDs[0], s.IDs[1], msg)
	case "cmp":
		switch variant {
		case "sign":
			return sess.CMPSign(s.CMP, signers, msg)
		case "presign":
			return sess.CMPPresign(s.CMP, signers)
		case "presign-online":
			return sess.CMPPresignOnline(s.CMP, pre, signers, msg)
		case "presign-full":
			return sess.CMPPresignFull(s.CMP, signers, msg)
		}
	}
	panic("unknown protocol/variant " + s.Proto + "/" + variant)
}

// ---- cache ----------------------------------------------------------------------------------------

type entry struct {
	set  *Set
	fail *Fail
}

var cache = map[string]entry{}

// Get returns the key material (proto, idset, n, t, material), generating (and caching, per
// process) what is missing.  Key material does not depend on the shard: it is a function of
// the seed only.
func Get(proto, idset string, n, t int, material string, seed int64) (*Set, *Fail) {
	key := fmt.Sprintf("%s|%s|%d|%d|%s", proto, idset, n, t, material)
	if e, ok := cache[key]; ok {
		return e.set, e.fail
	}
	var e entry
	if material == "fresh" {
		e.set, _, e.fail = Generate(proto, idset, n, t, seed)
		if e.fail != nil {
			e.fail = &Fail{Class: "keygen:" + e.fail.Class, Detail: "key generation: " + e.fail.Detail}
		}
	} else {
		base, f := Get(proto, idset, n, t, "fresh", seed)
		switch {
		case f != nil:
			e.fail = f
		case material == "refreshed":
			// FROST refresh updates the PrivateShare scalar of the config it is given in place, so the
			// cached fresh material must never be handed to a refresh session: refresh a private copy
			// (key generation is deterministic in the seed, so the copy equals the cached fresh set).
			// CMP refresh copies what it reads and its key generation is expensive: it shares the set;
			// Unchanged() below guards both.
			if proto != "cmp" {
				var kf *Fail
				if base, _, kf = Generate(proto, idset, n, t, seed); kf != nil {
					e.fail = &Fail{Class: "keygen:" + kf.Class, Detail: "key generation: " + kf.Detail}
					break
				}
			}
			e.set, e.fail = base.Refreshed(seed)
			if e.fail != nil {
				e.fail = &Fail{Class: "refresh:" + e.fail.Class, Detail: "refresh: " + e.fail.Detail}
			} else if proto == "cmp" && !base.Unchanged() {
				e.set, e.fail = nil, &Fail{Class: "refresh:modifies-its-input-material", Detail: "the refresh session changed the (shared, cached) fresh key material it was started with"}
			}
		case material == "derived":
			var err error
			if e.set, err = base.Derived(DeriveIndex); err != nil {
				e.fail = &Fail{Class: "derive:error", Detail: err.Error()}
			}
		default:
			panic("unknown material " + material)
		}
	}
	if e.set != nil {
		e.set.print = e.set.fingerprint()
	}
	cache[key] = e
	return e.set, e.fail
}

// fingerprint digests every shareholder's material (secret share, group key, table, auxiliary data).
func (s *Set) fingerprint() string {
	var b strings.Builder
	if s.Proto == "doerner" {
		p1, _ := oracle.Pt(s.DR.Public)
		p2, _ := oracle.Pt(s.DS.Public)
		fmt.Fprintf(&b, "%x|%x|%x|%x|%x|%x", oracle.Sc(s.DR.SecretShare), oracle.Sc(s.DS.SecretShare), p1.Compressed(), p2.Compressed(), s.DR.ChainKey, s.DS.ChainKey)
		return b.String()
	}
	for _, id := range s.IDs {
		var r interface{}
		switch s.Proto {
		case "frost":
			r = s.Frost[id]
		case "taproot":
			r = s.Taproot[id]
		default:
			r = s.CMP[id]
		}
		v, err := oracle.ViewOf(r)
		if err != nil {
			fmt.Fprintf(&b, "%q:error %v;", id, err)
			continue
		}
		fmt.Fprintf(&b, "%q:%d|%x|%x|%s|%x", id, v.Threshold, v.Secret, v.Public.Compressed(), v.Aux, v.ChainKey)
		keys := make([]string, 0, len(v.Shares))
		for k := range v.Shares {
			keys = append(keys, k)
		}
		sort.Strings(keys)
		for _, k := range keys {
			p := v.Shares[k]
			if p.Inf {
				fmt.Fprintf(&b, "|%q=inf", k)
			} else {
				fmt.Fprintf(&b, "|%q=%x", k, p.Compressed())
			}
		}
		b.WriteString(";")
	}
	h := sha256.Sum256([]byte(b.String()))
	return fmt.Sprintf("%x", h[:16])
}

// Unchanged reports whether the cached material still equals what was generated: sessions
// are expected to treat the key material they are started with as read-only.
func (s *Set) Unchanged() bool { return s.print == s.fingerprint() }

// DeriveIndex is the (non-hardened) child index used for derived material.
const DeriveIndex uint32 = 7

// ---- sharding ---------------------------------------------------------------------------------------

// Assign distributes work units over nShards processes: longest-processing-time-first on the
// estimated costs, where a unit additionally costs groupCost[group] on a shard that does not yet
// hold that group (key material is generated once per process).  Deterministic.
func Assign(cost []float64, group []string, groupCost map[string]float64, nShards int) []int {
	idx := make([]int, len(cost))
	for i := range idx {
		idx[i] = i
	}
	sort.SliceStable(idx, func(a, b int) bool { return cost[idx[a]] > cost[idx[b]] })
	load := make([]float64, nShards)
	has := make([]map[string]bool, nShards)
	for i := range has {
		has[i] = map[string]bool{}
	}
	out := make([]int, len(cost))
	for _, u := range idx {
		best, bestLoad := 0, 0.0
		for s := 0; s < nShards; s++ {
			l := load[s] + cost[u]
			if group != nil && group[u] != "" && !has[s][group[u]] {
				l += groupCost[group[u]]
			}
			if s == 0 || l < bestLoad {
				best, bestLoad = s, l
			}
		}
		load[best] = bestLoad
		if group != nil && group[u] != "" {
			has[best][group[u]] = true
		}
		out[u] = best
	}
	return out
}
