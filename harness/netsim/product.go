package netsim

import (
	"crypto/sha256"
	"encoding/hex"
	"fmt"
	"os"
	"sort"
	"strings"
	"time"

	"github.com/taurusgroup/multi-party-sig/internal/zzverif/drv"
	"github.com/taurusgroup/multi-party-sig/pkg/protocol"
)

// Product search.  Handlers of one session share nothing, so a global state is the tuple of
// the per-actor states plus the pending multiset and budgets, and delivering a message to
// actor p changes only p.  The search therefore keeps, per actor, a table
//     (actor state digest, message) -> (next digest, emitted messages, status)
// filled by replaying ONLY that actor's inbox history on a fresh real handler and delivering
// the message; every global transition is then a table lookup.  The soundness assumption is
// the same as for merging: an actor's deep digest determines its future behaviour.
// Every violation found this way is re-validated by a full replay of its global history on
// fresh real handlers before it is reported.

type ActorState struct {
	Digest     string
	Inbox      []*protocol.Message // a representative inbox history reaching this state
	Sent       []*protocol.Message
	Status     string // running | done:<key> | error:<text>
	Closed     bool
	Panic      string
	PanicFrame string
	Hung       bool
}

type PWorld struct {
	sc        *Scenario
	States    map[string]*ActorState
	Pending   []pend
	Delivered []pend
	dupLeft   int
	injLeft   int
	injUsed   map[int]bool
}

func (w *PWorld) SentBy(k string) []*protocol.Message { return w.States[k].Sent }

func (w *PWorld) Info(k string) ActorInfo {
	s := w.States[k]
	return ActorInfo{Panic: s.Panic, PanicFrame: s.PanicFrame, Hung: s.Hung, Closed: s.Closed, Sent: s.Sent}
}
func (w *PWorld) NPending() int { return len(w.Pending) }

func (w *PWorld) Status() map[string]string {
	out := map[string]string{}
	for k, s := range w.States {
		out[k] = s.Status
	}
	return out
}

type product struct {
	sc       *Scenario
	memo     map[string]*ActorState // actorKey|digest|msghash -> next
	steps    int64                  // real handler replays performed
	absorbed int64                  // deliveries to ended handlers verified to be no-ops and merged into the preceding transition
}

func msgHash(m *protocol.Message) string {
	h := sha256.New()
	fmt.Fprintf(h, "%d|%s|%s|%v|%s|", m.RoundNumber, m.From, m.To, m.Broadcast, m.Protocol)
	h.Write(m.SSID)
	h.Write([]byte{0})
	h.Write(m.Data)
	h.Write([]byte{0})
	h.Write(m.BroadcastVerification)
	return hex.EncodeToString(h.Sum(nil)[:12])
}

func (pr *product) summarize(a Actor, p *drv.Party, inbox []*protocol.Message) *ActorState {
	s := &ActorState{Inbox: inbox, Sent: p.Sent, Closed: p.Closed, Panic: p.Panic, PanicFrame: p.PanicFrame, Hung: p.Hung != ""}
	if p.H != nil && !s.Hung {
		s.Digest = hex.EncodeToString(DeepHash(p.H)[:12])
		r, err := p.Result()
		switch {
		case r != nil:
			k := "?"
			if pr.sc.ResultKey != nil {
				k = pr.sc.ResultKey(r)
			}
			s.Status = "done:" + k
		case drv.IsNotFinished(err):
			s.Status = "running"
		default:
			s.Status = "error:" + err.Error()
		}
	} else {
		s.Status = "noh"
	}
	if os.Getenv("NETSIM_DEBUG") != "" {
		var l []string
		for _, m := range inbox {
			l = append(l, drv.MsgID(m))
		}
		fmt.Fprintf(os.Stderr, "DBG %s [%s] %s %s\n", a.Key, strings.Join(l, " "), s.Digest, s.Status)
		if os.Getenv("NETSIM_DEBUG") == a.Key && p.H != nil && strings.HasPrefix(s.Status, "error") {
			fmt.Fprintf(os.Stderr, "TRACE %s %s\n", s.Digest, strings.Join(DeepTrace(p.H), "\n   "))
		}
	}
	if s.Closed {
		s.Digest += "c"
	}
	if s.Panic != "" {
		s.Digest += "!P"
	}
	return s
}

func (pr *product) fresh(a Actor) (*drv.Party, error) {
	return drv.NewParty(a.ID, drv.NewDRBG(a.Seed, pr.sc.Seed), func() (protocol.Handler, error) { return pr.sc.New(a) })
}

// step returns the state of actor a after delivering m in state cur.
func (pr *product) step(a Actor, cur *ActorState, m *protocol.Message) (*ActorState, error) {
	key := a.Key + "|" + cur.Digest + "|" + msgHash(m)
	if n, ok := pr.memo[key]; ok {
		return n, nil
	}
	p, err := pr.fresh(a)
	if err != nil {
		return nil, err
	}
	for _, x := range cur.Inbox {
		p.Deliver(drv.CloneMsg(x))
	}
	p.Take()
	p.Deliver(drv.CloneMsg(m))
	pr.steps += int64(len(cur.Inbox) + 1)
	inbox := append(append([]*protocol.Message{}, cur.Inbox...), m)
	n := pr.summarize(a, p, inbox)
	pr.memo[key] = n
	return n, nil
}

func (pr *product) route(w *PWorld, a Actor, ms []*protocol.Message) {
	ms = append([]*protocol.Message{}, ms...)
	drv.SortMsgs(ms)
	for _, m := range ms {
		var tos []string
		if pr.sc.Route != nil {
			tos = pr.sc.Route(a, m)
		} else {
			for _, b := range pr.sc.Actors {
				if m.IsFor(b.ID) {
					tos = append(tos, b.Key)
				}
			}
		}
		for _, to := range tos {
			mm := m
			if pr.sc.Rewrite != nil {
				mm = pr.sc.Rewrite(a, pr.sc.actor(to), m)
				if mm == nil {
					continue
				}
			}
			w.Pending = append(w.Pending, pend{id: drv.MsgID(mm) + "|" + a.Key + ">" + to, from: a.Key, to: to, m: mm})
		}
	}
}

func (w *PWorld) clone() *PWorld {
	c := &PWorld{sc: w.sc, States: map[string]*ActorState{}, dupLeft: w.dupLeft, injLeft: w.injLeft, injUsed: map[int]bool{}}
	for k, v := range w.States {
		c.States[k] = v
	}
	c.Pending = append([]pend{}, w.Pending...)
	c.Delivered = append([]pend{}, w.Delivered...)
	for k := range w.injUsed {
		c.injUsed[k] = true
	}
	return c
}

func (w *PWorld) Key() string {
	var sb strings.Builder
	for _, a := range w.sc.Actors {
		sb.WriteString(a.Key + "=" + w.States[a.Key].Digest + ";")
	}
	ids := make([]string, 0, len(w.Pending))
	for _, p := range w.Pending {
		ids = append(ids, p.id+"#"+msgHash(p.m)[:6])
	}
	sort.Strings(ids)
	sb.WriteString(strings.Join(ids, ","))
	fmt.Fprintf(&sb, ";d%d;i%d", w.dupLeft, w.injLeft)
	var u []int
	for i := range w.injUsed {
		u = append(u, i)
	}
	sort.Ints(u)
	fmt.Fprintf(&sb, "%v", u)
	return sb.String()
}

func (w *PWorld) Events() []string {
	var ev []string
	seen := map[string]bool{}
	for _, p := range w.Pending {
		e := "D|" + p.id
		if !seen[e] {
			seen[e] = true
			ev = append(ev, e)
		}
	}
	if w.dupLeft > 0 {
		for _, p := range w.Delivered {
			e := "U|" + p.id
			if !seen[e] {
				seen[e] = true
				ev = append(ev, e)
			}
		}
	}
	if w.injLeft > 0 {
		for i, in := range w.sc.Inject {
			if !w.injUsed[i] {
				ev = append(ev, fmt.Sprintf("I|%d|%s", i, in.Label))
			}
		}
	}
	sort.Strings(ev)
	return w.sc.eagerOnly(ev, func(id string) string {
		for _, p := range w.Pending {
			if p.id == id {
				return p.to
			}
		}
		return ""
	})
}

func (pr *product) apply(w *PWorld, e string) (*PWorld, error) {
	n := w.clone()
	var to string
	var m *protocol.Message
	var from string
	switch e[0] {
	case 'D':
		found := false
		for i, p := range n.Pending {
			if p.id == e[2:] {
				n.Pending = append(n.Pending[:i:i], n.Pending[i+1:]...)
				n.Delivered = append(n.Delivered, p)
				to, m, from = p.to, p.m, p.from
				found = true
				break
			}
		}
		if !found {
			return nil, fmt.Errorf("event %s not enabled", e)
		}
		if pr.sc.AtDeliver != nil {
			m = pr.sc.AtDeliver(w, pr.sc.actor(from), pr.sc.actor(to), m)
		}
	case 'U':
		found := false
		for _, p := range n.Delivered {
			if p.id == e[2:] {
				to, m = p.to, p.m
				found = true
				break
			}
		}
		if !found || n.dupLeft <= 0 {
			return nil, fmt.Errorf("event %s not enabled", e)
		}
		n.dupLeft--
	case 'I':
		var i int
		fmt.Sscanf(e[2:], "%d|", &i)
		if n.injLeft <= 0 || i >= len(pr.sc.Inject) || n.injUsed[i] {
			return nil, fmt.Errorf("event %s not enabled", e)
		}
		n.injLeft--
		n.injUsed[i] = true
		to, m = pr.sc.Inject[i].To, pr.sc.Inject[i].M
	}
	a := pr.sc.actor(to)
	cur := n.States[to]
	next, err := pr.step(a, cur, m)
	if err != nil {
		return nil, err
	}
	n.States[to] = next
	if len(next.Sent) > len(cur.Sent) {
		pr.route(n, a, next.Sent[len(cur.Sent):])
	}
	pr.absorb(n)
	return n, nil
}

// absorb is a partial-order reduction: a pending message whose recipient has already ended
// (outgoing channel closed) is delivered at once, provided the real handler shows it to be a
// no-op there (state digest unchanged, nothing emitted) — then its delivery commutes with every
// other event.  A message that does change an ended handler is left pending (and explored).
func (pr *product) absorb(w *PWorld) {
	for changed := true; changed; {
		changed = false
		for i, p := range w.Pending {
			cur := w.States[p.to]
			if !cur.Closed {
				continue
			}
			m := p.m
			if pr.sc.AtDeliver != nil {
				m = pr.sc.AtDeliver(w, pr.sc.actor(p.from), pr.sc.actor(p.to), m)
			}
			next, err := pr.step(pr.sc.actor(p.to), cur, m)
			if err != nil || next.Digest != cur.Digest || len(next.Sent) != len(cur.Sent) || next.Status != cur.Status {
				continue
			}
			w.Pending = append(w.Pending[:i:i], w.Pending[i+1:]...)
			w.Delivered = append(w.Delivered, p)
			pr.absorbed++
			changed = true
			break
		}
	}
}

// Search explores the whole state space breadth-first (product / memoised form).
func (sc *Scenario) Search(ck Checker, maxStates int64, deadline time.Time) *Stats {
	t0 := time.Now()
	st := &Stats{Outcomes: map[string]int64{}, Complete: true}
	pr := &product{sc: sc, memo: map[string]*ActorState{}}
	seenV := map[string]bool{}
	addV := func(vs []Violation, hist []string) {
		for _, v := range vs {
			if !seenV[v.Sig] {
				seenV[v.Sig] = true
				v.History = append([]string{}, hist...)
				st.Violations = append(st.Violations, v)
			}
		}
	}
	w0 := &PWorld{sc: sc, States: map[string]*ActorState{}, dupLeft: sc.DupBudget, injLeft: sc.InjectBudget, injUsed: map[int]bool{}}
	for _, a := range sc.Actors {
		p, err := pr.fresh(a)
		if err != nil {
			st.Violations = append(st.Violations, Violation{Sig: "harness|construct", Detail: err.Error()})
			st.Complete = false
			return st
		}
		w0.States[a.Key] = pr.summarize(a, p, nil)
	}
	for _, a := range sc.Actors {
		pr.route(w0, a, w0.States[a.Key].Sent)
	}
	type node struct {
		w    *PWorld
		hist []string
	}
	judge := func(w *PWorld, hist []string) {
		if ck.State != nil {
			addV(ck.State(w, hist), hist)
		}
		if len(w.Pending) == 0 {
			st.Sinks++
			stt := w.Status()
			keys := make([]string, 0, len(stt))
			for k := range stt {
				keys = append(keys, k)
			}
			sort.Strings(keys)
			var parts []string
			for _, k := range keys {
				v := stt[k]
				if len(v) > 40 {
					v = v[:40]
				}
				parts = append(parts, k+"="+v)
			}
			st.Outcomes[strings.Join(parts, " ")]++
			if ck.Sink != nil {
				addV(ck.Sink(w, hist), hist)
			}
		}
	}
	seen := map[string]bool{w0.Key(): true}
	st.States = 1
	judge(w0, nil)
	frontier := []node{{w0, nil}}
	for len(frontier) > 0 {
		var next []node
		for _, n := range frontier {
			for _, e := range n.w.Events() {
				w2, err := pr.apply(n.w, e)
				if err != nil {
					st.Violations = append(st.Violations, Violation{Sig: "harness|apply", Detail: err.Error(), History: n.hist})
					st.Complete = false
					continue
				}
				st.Transitions++
				k := w2.Key()
				if seen[k] {
					continue
				}
				seen[k] = true
				st.States++
				h2 := append(append([]string{}, n.hist...), e)
				if len(h2) > st.MaxDepth {
					st.MaxDepth = len(h2)
				}
				judge(w2, h2)
				next = append(next, node{w2, h2})
				if maxStates > 0 && st.States >= maxStates || !deadline.IsZero() && time.Now().After(deadline) {
					st.Complete = false
					st.WallS = time.Since(t0).Seconds()
					st.ActorSteps = pr.steps
					return st
				}
			}
		}
		frontier = next
	}
	st.ActorSteps = pr.steps
	st.ActorTransitions = int64(len(pr.memo))
	// re-validate every violation by a full replay of its history on fresh real handlers
	for i := range st.Violations {
		v := &st.Violations[i]
		if strings.HasPrefix(v.Sig, "harness|") {
			continue
		}
		// The real handler processes queued messages of the next round in Go map order; when one of
		// them makes it abort, what it had stored before aborting differs from run to run, so a
		// history is replayed a few times before it is declared irreproducible.
		ok := false
		var err error
		for attempt := 0; attempt < 8 && !ok; attempt++ {
			var lw *World
			if lw, err = sc.Replay(v.History); err != nil {
				continue
			}
			lw.AbsorbClosed()
			var vs []Violation
			if ck.State != nil {
				vs = append(vs, ck.State(lw, v.History)...)
			}
			if ck.Sink != nil && lw.NPending() == 0 {
				vs = append(vs, ck.Sink(lw, v.History)...)
			}
			for _, x := range vs {
				if x.Sig == v.Sig {
					ok = true
				}
			}
		}
		if !ok {
			st.Violations = append(st.Violations, Violation{Sig: "harness|product-search violation not reproduced by full replay", Detail: v.Sig + ": " + v.Detail + fmt.Sprint(" replay error: ", err), History: v.History})
		}
	}
	st.WallS = time.Since(t0).Seconds()
	return st
}
