// Package netsim is engine B: explicit-state search over the delivery schedules of real
// protocol handlers.  A state is an event history; a successor is obtained by replaying the
// history on fresh handlers (deterministic: seeded per-actor DRBGs) and applying one more
// event.  States are merged on a canonical key built from the deep digest of every handler
// plus the pending multiset and the remaining budgets.
package netsim

import (
	"encoding/hex"
	"fmt"
	"sort"
	"strings"
	"time"

	"github.com/taurusgroup/multi-party-sig/internal/zzverif/drv"
	"github.com/taurusgroup/multi-party-sig/pkg/party"
	"github.com/taurusgroup/multi-party-sig/pkg/protocol"
)

// Actor is one handler instance.  Twins (two instances acting under the same party id) have
// different keys and seeds but the same ID.
type Actor struct {
	Key    string
	ID     party.ID
	Seed   string
	Honest bool
	Group  int // C06: which payload group an honest actor belongs to
}

type Scenario struct {
	Name   string
	Actors []Actor
	New    func(a Actor) (protocol.Handler, error)
	// Route returns the actor keys that receive message m emitted by actor `from`; nil func = every
	// actor whose ID the message is for.  Rewrite may replace the message per recipient.
	Route   func(from Actor, m *protocol.Message) []string
	Rewrite func(from Actor, to Actor, m *protocol.Message) *protocol.Message
	// AtDeliver may replace a message at the moment it is delivered (it sees the whole world, e.g. what the recipient has emitted so far).
	AtDeliver func(w View, from Actor, to Actor, m *protocol.Message) *protocol.Message
	// Extra deliveries that may be injected (foreign-session or stale messages), each at most once, budget-limited.
	Inject       []Inject
	DupBudget    int
	InjectBudget int
	ResultKey    func(r interface{}) string
	Seed         int64
	// Eager actors (e.g. the instances of a cheating party, whose own schedule is not what is being
	// judged) take every message addressed to them at once, in canonical order: while such a message
	// is pending, its delivery is the only enabled event.  This restricts the behaviours of those
	// actors, never those of the others, whose delivery orders stay fully enumerated.
	Eager func(a Actor) bool
}

// eagerOnly reduces a sorted event list to the first delivery addressed to an eager actor, if there is one.
func (sc *Scenario) eagerOnly(ev []string, toOf func(id string) string) []string {
	if sc.Eager == nil {
		return ev
	}
	for _, e := range ev {
		if e[0] == 'D' && sc.Eager(sc.actor(toOf(e[2:]))) {
			return []string{e}
		}
	}
	return ev
}

// View is what AtDeliver may look at: everything each actor has emitted so far.
type View interface {
	SentBy(actorKey string) []*protocol.Message
}

func (w *World) SentBy(k string) []*protocol.Message { return w.Actors[k].Sent }

type Inject struct {
	Label string
	To    string // actor key
	M     *protocol.Message
}

type pend struct {
	id   string
	from string
	to   string
	m    *protocol.Message
}

type World struct {
	sc        *Scenario
	Actors    map[string]*drv.Party
	actorOf   map[string]Actor
	Pending   []pend
	Delivered []pend
	dupLeft   int
	injLeft   int
	injUsed   map[int]bool
	Err       string // construction problem
}

func (sc *Scenario) actor(key string) Actor {
	for _, a := range sc.Actors {
		if a.Key == key {
			return a
		}
	}
	panic("no actor " + key)
}

func (sc *Scenario) newWorld() *World {
	w := &World{sc: sc, Actors: map[string]*drv.Party{}, actorOf: map[string]Actor{}, dupLeft: sc.DupBudget, injLeft: sc.InjectBudget, injUsed: map[int]bool{}}
	for _, a := range sc.Actors {
		a := a
		p, err := drv.NewParty(a.ID, drv.NewDRBG(a.Seed, sc.Seed), func() (protocol.Handler, error) { return sc.New(a) })
		if err != nil {
			w.Err = fmt.Sprintf("constructing %s: %v", a.Key, err)
			return w
		}
		w.Actors[a.Key] = p
		w.actorOf[a.Key] = a
	}
	w.flush()
	return w
}

func (w *World) flush() {
	for _, a := range w.sc.Actors {
		p := w.Actors[a.Key]
		ms := p.Take()
		drv.SortMsgs(ms)
		for _, m := range ms {
			var tos []string
			if w.sc.Route != nil {
				tos = w.sc.Route(a, m)
			} else {
				for _, b := range w.sc.Actors {
					if m.IsFor(b.ID) {
						tos = append(tos, b.Key)
					}
				}
			}
			for _, to := range tos {
				mm := m
				if w.sc.Rewrite != nil {
					mm = w.sc.Rewrite(a, w.actorOf[to], m)
					if mm == nil {
						continue
					}
				}
				w.Pending = append(w.Pending, pend{id: drv.MsgID(mm) + "|" + a.Key + ">" + to, from: a.Key, to: to, m: mm})
			}
		}
	}
}

// Events lists the enabled events of this state in canonical order.
func (w *World) Events() []string {
	var ev []string
	seen := map[string]bool{}
	for _, p := range w.Pending {
		e := "D|" + p.id
		if !seen[e] {
			seen[e] = true
			ev = append(ev, e)
		}
	}
	if w.dupLeft > 0 {
		for _, p := range w.Delivered {
			e := "U|" + p.id
			if !seen[e] {
				seen[e] = true
				ev = append(ev, e)
			}
		}
	}
	if w.injLeft > 0 {
		for i, in := range w.sc.Inject {
			if !w.injUsed[i] {
				ev = append(ev, fmt.Sprintf("I|%d|%s", i, in.Label))
			}
		}
	}
	sort.Strings(ev)
	return w.sc.eagerOnly(ev, func(id string) string {
		for _, p := range w.Pending {
			if p.id == id {
				return p.to
			}
		}
		return ""
	})
}

// Apply executes one event; false = the event is not enabled here (replay divergence).
func (w *World) Apply(e string) bool {
	switch e[0] {
	case 'D':
		for i, p := range w.Pending {
			if p.id == e[2:] {
				w.Pending = append(w.Pending[:i:i], w.Pending[i+1:]...)
				w.Delivered = append(w.Delivered, p)
				m := p.m
				if w.sc.AtDeliver != nil {
					m = w.sc.AtDeliver(w, w.actorOf[p.from], w.actorOf[p.to], m)
				}
				w.Actors[p.to].Deliver(m)
				w.flush()
				return true
			}
		}
		return false
	case 'U':
		if w.dupLeft <= 0 {
			return false
		}
		for _, p := range w.Delivered {
			if p.id == e[2:] {
				w.dupLeft--
				w.Actors[p.to].Deliver(drv.CloneMsg(p.m))
				w.flush()
				return true
			}
		}
		return false
	case 'I':
		var i int
		fmt.Sscanf(e[2:], "%d|", &i)
		if w.injLeft <= 0 || i >= len(w.sc.Inject) || w.injUsed[i] {
			return false
		}
		w.injLeft--
		w.injUsed[i] = true
		in := w.sc.Inject[i]
		w.Actors[in.To].Deliver(drv.CloneMsg(in.M))
		w.flush()
		return true
	}
	return false
}

// AbsorbClosed delivers every pending message whose recipient has already ended (the live
// counterpart of the product search's reduction).
func (w *World) AbsorbClosed() {
	for changed := true; changed; {
		changed = false
		for _, p := range w.Pending {
			if w.Actors[p.to].Closed {
				w.Apply("D|" + p.id)
				changed = true
				break
			}
		}
	}
}

func (sc *Scenario) Replay(hist []string) (*World, error) {
	w := sc.newWorld()
	if w.Err != "" {
		return w, fmt.Errorf("%s", w.Err)
	}
	for i, e := range hist {
		if !w.Apply(e) {
			return w, fmt.Errorf("replay diverged at step %d (%s)", i, e)
		}
	}
	return w, nil
}

// Key is the canonical state key.
func (w *World) Key() string {
	var sb strings.Builder
	for _, a := range w.sc.Actors {
		p := w.Actors[a.Key]
		sb.WriteString(a.Key)
		sb.WriteByte('=')
		if p.H != nil {
			sb.WriteString(hex.EncodeToString(DeepHash(p.H)[:12]))
		}
		if p.Closed {
			sb.WriteByte('c')
		}
		if p.Panic != "" {
			sb.WriteString("!P")
		}
		sb.WriteByte(';')
	}
	ids := make([]string, 0, len(w.Pending))
	for _, p := range w.Pending {
		ids = append(ids, p.id)
	}
	sort.Strings(ids)
	sb.WriteString(strings.Join(ids, ","))
	fmt.Fprintf(&sb, ";d%d;i%d", w.dupLeft, w.injLeft)
	if w.injLeft > 0 || len(w.injUsed) > 0 {
		var u []int
		for i := range w.injUsed {
			u = append(u, i)
		}
		sort.Ints(u)
		fmt.Fprintf(&sb, "%v", u)
	}
	return sb.String()
}

// Status of every actor: key -> running | done | error:<text>
func (w *World) Status() map[string]string {
	out := map[string]string{}
	for _, a := range w.sc.Actors {
		p := w.Actors[a.Key]
		if p.H == nil {
			out[a.Key] = "noh"
			continue
		}
		r, err := p.Result()
		switch {
		case r != nil:
			k := "?"
			if w.sc.ResultKey != nil {
				k = w.sc.ResultKey(r)
			}
			out[a.Key] = "done:" + k
		case drv.IsNotFinished(err):
			out[a.Key] = "running"
		default:
			out[a.Key] = "error:" + err.Error()
		}
	}
	return out
}

type Stats struct {
	States, Transitions, Sinks int64
	MaxDepth                   int
	Outcomes                   map[string]int64 // terminal outcome -> number of sinks
	Complete                   bool
	WallS                      float64
	Violations                 []Violation
	ActorSteps                 int64 // product search: deliveries executed on real handlers
	ActorTransitions           int64 // product search: distinct (actor state, message) pairs executed
}

type Violation struct {
	Sig, Detail string
	History     []string
}

// W is what a checker may read of a global state (live or product form).
type W interface {
	View
	Status() map[string]string
	Info(actorKey string) ActorInfo
	NPending() int
}

type ActorInfo struct {
	Panic, PanicFrame string
	Hung              bool
	Closed            bool
	Sent              []*protocol.Message
}

func (w *World) Info(k string) ActorInfo {
	p := w.Actors[k]
	return ActorInfo{Panic: p.Panic, PanicFrame: p.PanicFrame, Hung: p.Hung != "", Closed: p.Closed, Sent: p.Sent}
}
func (w *World) NPending() int { return len(w.Pending) }

// Checker judges a state (every state) and a sink (no pending deliveries).
type Checker struct {
	State func(w W, hist []string) []Violation
	Sink  func(w W, hist []string) []Violation
}

// Actors lists the actor keys of the scenario in order.
func (sc *Scenario) ActorKeys() []string {
	var l []string
	for _, a := range sc.Actors {
		l = append(l, a.Key)
	}
	return l
}

// SearchLive explores the whole state space breadth-first, replaying whole worlds (reference implementation of Search, much slower).
func (sc *Scenario) SearchLive(ck Checker, maxStates int64, deadline time.Time) *Stats {
	t0 := time.Now()
	st := &Stats{Outcomes: map[string]int64{}, Complete: true}
	seenV := map[string]bool{}
	addV := func(vs []Violation, hist []string) {
		for _, v := range vs {
			if !seenV[v.Sig] {
				seenV[v.Sig] = true
				v.History = append([]string{}, hist...)
				st.Violations = append(st.Violations, v)
			}
		}
	}
	w0, err := sc.Replay(nil)
	if err != nil {
		st.Violations = append(st.Violations, Violation{Sig: "harness|replay", Detail: err.Error()})
		st.Complete = false
		return st
	}
	seen := map[string]bool{w0.Key(): true}
	type node struct{ hist []string }
	frontier := []node{{nil}}
	st.States = 1
	judge := func(w *World, hist []string) {
		if ck.State != nil {
			addV(ck.State(w, hist), hist)
		}
		if len(w.Pending) == 0 {
			st.Sinks++
			stt := w.Status()
			keys := make([]string, 0, len(stt))
			for k := range stt {
				keys = append(keys, k)
			}
			sort.Strings(keys)
			var parts []string
			for _, k := range keys {
				v := stt[k]
				if len(v) > 40 {
					v = v[:40]
				}
				parts = append(parts, k+"="+v)
			}
			st.Outcomes[strings.Join(parts, " ")]++
			if ck.Sink != nil {
				addV(ck.Sink(w, hist), hist)
			}
		}
	}
	judge(w0, nil)
	for depth := 0; len(frontier) > 0; depth++ {
		var next []node
		for _, n := range frontier {
			w, err := sc.Replay(n.hist)
			if err != nil {
				st.Violations = append(st.Violations, Violation{Sig: "harness|replay-diverged", Detail: err.Error(), History: n.hist})
				st.Complete = false
				continue
			}
			evs := w.Events()
			for i, e := range evs {
				var w2 *World
				if i == len(evs)-1 {
					w2 = w // the last successor may consume the replayed world
				} else {
					w2, err = sc.Replay(n.hist)
					if err != nil {
						st.Complete = false
						continue
					}
				}
				if !w2.Apply(e) {
					st.Violations = append(st.Violations, Violation{Sig: "harness|event-not-enabled", Detail: e, History: n.hist})
					st.Complete = false
					continue
				}
				st.Transitions++
				k := w2.Key()
				h2 := append(append([]string{}, n.hist...), e)
				if seen[k] {
					continue
				}
				seen[k] = true
				st.States++
				if len(h2) > st.MaxDepth {
					st.MaxDepth = len(h2)
				}
				judge(w2, h2)
				// a sink may still have duplicate / inject events: keep exploring those
				next = append(next, node{h2})
				if maxStates > 0 && st.States >= maxStates || !deadline.IsZero() && time.Now().After(deadline) {
					st.Complete = false
					st.WallS = time.Since(t0).Seconds()
					return st
				}
			}
		}
		frontier = next
	}
	st.WallS = time.Since(t0).Seconds()
	return st
}

// Deviations explores the in-order (FIFO) schedule and every schedule with at most k
// departures from it: at each step the default is the oldest pending delivery; choosing any
// other pending delivery costs one deviation.  Every execution runs to completion.
func (sc *Scenario) Deviations(k int, ck Checker, mine func(int) bool, deadline time.Time) *Stats {
	t0 := time.Now()
	st := &Stats{Outcomes: map[string]int64{}, Complete: true}
	seenV := map[string]bool{}
	type work struct {
		prefix []int // choice indices into Pending at each step
		dev    int
	}
	stack := []work{{}}
	n := 0
	for len(stack) > 0 {
		wk := stack[len(stack)-1]
		stack = stack[:len(stack)-1]
		w := sc.newWorld()
		var hist []string
		var choices []int
		var widths []int
		step := 0
		bad := false
		for len(w.Pending) > 0 && step < 10000 {
			c := 0
			if step < len(wk.prefix) {
				c = wk.prefix[step]
			}
			if c >= len(w.Pending) {
				bad = true
				break
			}
			widths = append(widths, len(w.Pending))
			choices = append(choices, c)
			e := "D|" + w.Pending[c].id
			hist = append(hist, e)
			w.Apply(e)
			st.Transitions++
			if ck.State != nil {
				for _, v := range ck.State(w, hist) {
					if !seenV[v.Sig] {
						seenV[v.Sig] = true
						v.History = append([]string{}, hist...)
						st.Violations = append(st.Violations, v)
					}
				}
			}
			step++
		}
		if bad {
			st.Violations = append(st.Violations, Violation{Sig: "harness|prefix-diverged", Detail: fmt.Sprint(wk.prefix)})
			st.Complete = false
			continue
		}
		// children: deviate at a later step
		// sharding: the root execution is run by every shard (counted by the shard owning index 0);
		// its children (first-level subtrees) are distributed over the shards.
		root := len(wk.prefix) == 0
		if wk.dev < k {
			for i := len(wk.prefix); i < len(choices); i++ {
				for alt := 1; alt < widths[i]; alt++ {
					n++
					if root && mine != nil && !mine(n) {
						continue
					}
					np := append(append([]int{}, choices[:i]...), alt)
					stack = append(stack, work{prefix: np, dev: wk.dev + 1})
				}
			}
		}
		if root && mine != nil && !mine(0) {
			continue
		}
		st.States++
		st.Sinks++
		if step > st.MaxDepth {
			st.MaxDepth = step
		}
		stt := w.Status()
		keys := make([]string, 0, len(stt))
		for kk := range stt {
			keys = append(keys, kk)
		}
		sort.Strings(keys)
		var parts []string
		for _, kk := range keys {
			v := stt[kk]
			if len(v) > 40 {
				v = v[:40]
			}
			parts = append(parts, kk+"="+v)
		}
		st.Outcomes[strings.Join(parts, " ")]++
		if ck.Sink != nil {
			for _, v := range ck.Sink(w, hist) {
				if !seenV[v.Sig] {
					seenV[v.Sig] = true
					v.History = append([]string{}, hist...)
					st.Violations = append(st.Violations, v)
				}
			}
		}
		if !deadline.IsZero() && time.Now().After(deadline) {
			st.Complete = false
			break
		}
	}
	st.WallS = time.Since(t0).Seconds()
	return st
}
