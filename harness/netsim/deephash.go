package netsim

import (
	"crypto/sha256"
	"encoding"
	"encoding/binary"
	"fmt"
	"hash"
	"reflect"
	"sort"
	"strings"
	"unsafe"
)

// DeepHash is a canonical digest of an arbitrary Go value: all struct fields (exported or
// not), pointers followed (with cycle protection), maps in sorted key-digest order, slices by
// content.  sync primitives, channels and functions are skipped.  Equal digests of two handler
// states mean equal content of everything handler code can read; incidental differences
// (capacities, addresses) are not hashed.
func DeepHash(v interface{}) []byte {
	h := sha256.New()
	d := &deep{h: h, seen: map[uintptr]int{}}
	d.walk(reflect.ValueOf(v), 0)
	return h.Sum(nil)
}

type deep struct {
	h     hash.Hash
	seen  map[uintptr]int
	trace *[]string // debugging: every tag written, in order
}

// DeepTrace returns the sequence of structural tags DeepHash walks through (debugging aid for
// finding what makes two digests differ).
func DeepTrace(v interface{}) []string {
	var l []string
	d := &deep{h: sha256.New(), seen: map[uintptr]int{}, trace: &l}
	d.walk(reflect.ValueOf(v), 0)
	return l
}

func (d *deep) tag(s string) {
	if d.trace != nil {
		*d.trace = append(*d.trace, s)
	}
	d.h.Write([]byte(s))
	d.h.Write([]byte{0})
}
func (d *deep) u64(x uint64) {
	var b [8]byte
	binary.BigEndian.PutUint64(b[:], x)
	d.h.Write(b[:])
}

type stateKeyer interface{ StateKey() []byte }

func safeMarshal(bm encoding.BinaryMarshaler) (b []byte, ok bool) {
	defer func() {
		if recover() != nil {
			ok = false
		}
	}()
	b, err := bm.MarshalBinary()
	return b, err == nil
}

// canonicalPkg limits the encoding shortcut to the arithmetic value types whose encodings are
// injective (points, scalars, big naturals); everything else is walked structurally.
func canonicalPkg(v reflect.Value) bool {
	t := v.Type()
	for t.Kind() == reflect.Ptr {
		t = t.Elem()
	}
	if v.Kind() == reflect.Interface && !v.IsNil() {
		t = v.Elem().Type()
		for t.Kind() == reflect.Ptr {
			t = t.Elem()
		}
	}
	switch t.PkgPath() {
	case "github.com/taurusgroup/multi-party-sig/pkg/math/curve", "github.com/cronokirby/saferith", "math/big":
		return true
	}
	return false
}

func (d *deep) walk(v reflect.Value, depth int) {
	if depth > 200 {
		d.tag("deep")
		return
	}
	if !v.IsValid() {
		d.tag("nil")
		return
	}
	t := v.Type()
	// types that carry no protocol state or cannot be hashed
	switch t.PkgPath() {
	case "sync", "sync/atomic":
		d.tag("sync")
		return
	}
	if v.CanInterface() || v.CanAddr() {
		// objects that define their own canonical key
		var iv reflect.Value
		if v.CanInterface() {
			iv = v
		} else {
			iv = reflect.NewAt(t, unsafe.Pointer(v.UnsafeAddr())).Elem()
		}
		if iv.Kind() == reflect.Ptr && !iv.IsNil() {
			if sk, ok := iv.Interface().(stateKeyer); ok {
				d.tag("sk:" + t.String())
				d.h.Write(sk.StateKey())
				return
			}
		}
		// values with a canonical binary encoding (curve points in projective coordinates,
		// scalars, naturals with spare capacity) are hashed through it: their in-memory
		// representation is not canonical.
		if (iv.Kind() == reflect.Ptr || iv.Kind() == reflect.Interface) && !iv.IsNil() && canonicalPkg(iv) {
			if bm, ok := iv.Interface().(encoding.BinaryMarshaler); ok {
				if b, ok := safeMarshal(bm); ok {
					d.tag("bm:" + iv.Elem().Type().String())
					d.u64(uint64(len(b)))
					d.h.Write(b)
					return
				}
			}
		}
	}
	switch v.Kind() {
	case reflect.Bool:
		if v.Bool() {
			d.tag("T")
		} else {
			d.tag("F")
		}
	case reflect.Int, reflect.Int8, reflect.Int16, reflect.Int32, reflect.Int64:
		d.u64(uint64(v.Int()))
	case reflect.Uint, reflect.Uint8, reflect.Uint16, reflect.Uint32, reflect.Uint64, reflect.Uintptr:
		d.u64(v.Uint())
	case reflect.Float32, reflect.Float64:
		d.tag(fmt.Sprint(v.Float()))
	case reflect.String:
		d.u64(uint64(v.Len()))
		d.h.Write([]byte(v.String()))
	case reflect.Ptr:
		if v.IsNil() {
			d.tag("nilptr")
			return
		}
		// d.seen holds the pointers on the CURRENT PATH only (cycle protection).  An object reachable
		// along two paths is walked twice: were it walked only the first time, the digest would
		// depend on which map entry is visited first, i.e. on Go's map iteration order.
		p := v.Pointer()
		if _, ok := d.seen[p]; ok {
			d.tag("back")
			return
		}
		d.seen[p] = 1
		d.tag("ptr")
		d.walk(v.Elem(), depth+1)
		delete(d.seen, p)
	case reflect.Interface:
		if v.IsNil() {
			d.tag("niliface")
			return
		}
		d.tag("iface:" + v.Elem().Type().String())
		d.walk(v.Elem(), depth+1)
	case reflect.Struct:
		d.tag("struct:" + t.String())
		for i := 0; i < v.NumField(); i++ {
			f := v.Field(i)
			if !f.CanInterface() && f.CanAddr() {
				f = reflect.NewAt(f.Type(), unsafe.Pointer(f.UnsafeAddr())).Elem()
			}
			d.walk(f, depth+1)
		}
	case reflect.Slice:
		if v.IsNil() {
			d.tag("nilslice")
			return
		}
		fallthrough
	case reflect.Array:
		d.tag("seq")
		d.u64(uint64(v.Len()))
		if v.Len() > 0 && v.Index(0).Kind() == reflect.Uint8 && v.Kind() == reflect.Slice {
			if v.CanInterface() {
				d.h.Write(v.Bytes())
				return
			}
		}
		for i := 0; i < v.Len(); i++ {
			d.walk(v.Index(i), depth+1)
		}
	case reflect.Map:
		if v.IsNil() {
			d.tag("nilmap")
			return
		}
		d.tag("map")
		type kv struct{ k, v []byte }
		var items []kv
		it := v.MapRange()
		for it.Next() {
			kd := &deep{h: sha256.New(), seen: d.seen}
			kd.walk(it.Key(), depth+1)
			vd := &deep{h: sha256.New(), seen: d.seen}
			if d.trace != nil {
				var sub []string
				vd.trace = &sub
			}
			vd.walk(it.Value(), depth+1)
			if d.trace != nil {
				*d.trace = append(*d.trace, fmt.Sprintf("mapentry key=%v val=%x {%s}", it.Key(), vd.h.Sum(nil)[:4], strings.Join(*vd.trace, " ")))
			}
			items = append(items, kv{kd.h.Sum(nil), vd.h.Sum(nil)})
		}
		sort.Slice(items, func(i, j int) bool { return string(items[i].k) < string(items[j].k) })
		d.u64(uint64(len(items)))
		for _, it := range items {
			d.h.Write(it.k)
			d.h.Write(it.v)
		}
	case reflect.Chan:
		d.tag("chan")
	case reflect.Func:
		d.tag("func")
	case reflect.UnsafePointer:
		d.tag("unsafe")
	default:
		d.tag("?" + v.Kind().String())
	}
}
