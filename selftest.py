#!/usr/bin/env python3
"""Run a check against the kept property-breaking patches and require that it reports a violation.

  python3 run.py selftest Cxx [name]     patches: /verif/mutants/Cxx/*.diff and /verif/seeded/*/patch.diff whose meta.json names Cxx
  python3 run.py selftest all

Each patch is applied to a scratch git worktree of /repo (outside /repo and /verif), the check is run with
VERIF_REPO pointing at it, and the worktree is removed again.  Exit 0 iff every patch was detected.
"""
import glob, json, os, subprocess, sys, tempfile, shutil

VERIF = os.path.dirname(os.path.abspath(__file__))
REPO = "/repo"


def patches_for(prop):
    out = []
    for f in sorted(glob.glob(os.path.join(VERIF, "mutants", prop, "*.diff"))):
        out.append((os.path.basename(f)[:-5], f, None))
    for meta in sorted(glob.glob(os.path.join(VERIF, "seeded", "*", "meta.json"))):
        try:
            m = json.load(open(meta))
        except Exception:
            continue
        if m.get("obsolete"):
            continue  # the change no longer breaks the property on the current tree (see meta.json)
        props = m.get("caught_by") or [m.get("property")]
        if prop in props:
            out.append(("seeded/" + os.path.basename(os.path.dirname(meta)), os.path.join(os.path.dirname(meta), "patch.diff"), m.get("tier")))
    return out


def run_one(prop, name, patch, tier):
    wt = tempfile.mkdtemp(prefix="verif-mut-", dir="/tmp")
    os.rmdir(wt)
    try:
        subprocess.check_call(["git", "-C", REPO, "worktree", "add", "-q", "--detach", wt, "HEAD"])
        p = subprocess.run(["git", "-C", wt, "apply", patch], capture_output=True, text=True)
        if p.returncode != 0:
            print("%-6s %-50s PATCH DOES NOT APPLY: %s" % (prop, name, p.stderr.strip()[:200]))
            return False
        env = dict(os.environ, VERIF_REPO=wt, VERIF_SELFTEST="1")
        r = subprocess.run([sys.executable, os.path.join(VERIF, "run.py"), prop, "--tier", tier, "--noevidence"], capture_output=True, text=True, env=env, cwd=VERIF)
        vio = [l for l in r.stdout.splitlines() if l.startswith("VIOLATION ")]
        ok = r.returncode == 1 and len(vio) > 0
        print("%-6s %-50s %s (exit %d, %d VIOLATION lines)" % (prop, name, "detected" if ok else "MISSED", r.returncode, len(vio)))
        if not ok:
            print(r.stdout[-800:])
        return ok
    finally:
        subprocess.call(["git", "-C", REPO, "worktree", "remove", "--force", wt], stdout=subprocess.DEVNULL, stderr=subprocess.DEVNULL)
        shutil.rmtree(wt, ignore_errors=True)


def main(args, tier):
    if not args:
        print(__doc__)
        return 2
    props = [args[0]]
    if args[0] == "all":
        props = sorted({os.path.basename(os.path.dirname(f)) for f in glob.glob(os.path.join(VERIF, "mutants", "C*", "*.diff"))})
    only = args[1] if len(args) > 1 else None
    ok = True
    for prop in props:
        for name, patch, ptier in patches_for(prop):
            if only and only not in name:
                continue
            ok = run_one(prop, name, patch, ptier or tier) and ok  # a seed may name the tier that catches it (meta.json "tier")
    return 0 if ok else 1
